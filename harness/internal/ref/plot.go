package ref

// refplot: reference implementation of the MASS proof-of-capacity table construction
// (what massdb.v1 must have stored once plotting completed), written only in terms of
// the chain library's primitives pocutil.P / F / PB / FB / FlipValue / RecordSize.
//
// Construction (tie-breaks mirror massdb.v1/plot.go at the pinned commit):
//
//	map A (2^bl slots): for x = 0 .. 2^bl-1 ascending:  y = P(x);
//	      slot = 2y if y < half, else 2*Flip(y)+1;  A[slot] = x      (last writer = highest x wins)
//	      a slot holding 0 is "empty" (x = 0 is indistinguishable from "never written").
//	map B (2^bl entries): for y = 0 .. half-1 ascending: (x, xp) = (A[2y], A[2y+1]);
//	      if x != 0 && xp != 0:  B[F(x,xp)] = (x,xp);  then  B[F(xp,x)] = (xp,x)   (later writes win)
//	      an entry (0,0) is "empty".
//
// The number of memory windows the real plotter uses does not appear here: the result
// must not depend on it.

import (
	"runtime"
	"sync"

	"github.com/massnetorg/mass-core/poc/pocutil"
)

// Table is the reference map B: entry z is (X[z], XP[z]); (0,0) means empty.
type Table struct {
	BL    int
	PKH   pocutil.Hash
	X, XP []uint64 // len 2^BL
}

// SlotA is the slot of map A that holds the preimage of y (interleaved with the flipped y).
func SlotA(y pocutil.PoCValue, bl int) uint64 {
	half := pocutil.PoCValue(1) << uint(bl-1)
	if y < half {
		return uint64(y) * 2
	}
	return uint64(pocutil.FlipValue(y, bl))*2 + 1
}

// parallelFor runs f(lo,hi) over [0,n) split into contiguous chunks; sequential when workers <= 1.
func parallelFor(n uint64, workers int, f func(lo, hi uint64)) {
	if workers <= 1 || n < 1<<12 {
		f(0, n)
		return
	}
	chunk := (n + uint64(workers) - 1) / uint64(workers)
	var wg sync.WaitGroup
	for lo := uint64(0); lo < n; lo += chunk {
		hi := lo + chunk
		if hi > n {
			hi = n
		}
		wg.Add(1)
		go func(lo, hi uint64) {
			defer wg.Done()
			f(lo, hi)
		}(lo, hi)
	}
	wg.Wait()
}

func workersFor(bl int) int {
	if bl < 20 {
		return 1
	}
	return runtime.GOMAXPROCS(0)
}

// BuildMapA returns the reference map A (slot-indexed, len 2^bl, 0 = empty).
// The hashes are computed in parallel for bl >= 20, but the assignment A[slot] = x is
// applied strictly in ascending x, so "highest x wins" holds by construction.
func BuildMapA(pubKeyHash pocutil.Hash, bl int) []uint64 {
	vol := uint64(1) << uint(bl)
	slots := make([]uint64, vol) // slots[x] = slot of P(x)
	parallelFor(vol, workersFor(bl), func(lo, hi uint64) {
		for x := lo; x < hi; x++ {
			slots[x] = SlotA(pocutil.P(pocutil.PoCValue(x), bl, pubKeyHash), bl)
		}
	})
	a := make([]uint64, vol)
	for x := uint64(0); x < vol; x++ {
		a[slots[x]] = x
	}
	return a
}

// BuildTableFromA derives map B from a map A (as returned by BuildMapA).
func BuildTableFromA(pubKeyHash pocutil.Hash, bl int, a []uint64) *Table {
	vol := uint64(1) << uint(bl)
	half := vol / 2
	t := &Table{BL: bl, PKH: pubKeyHash, X: make([]uint64, vol), XP: make([]uint64, vol)}
	// zs[2y] = F(x,xp), zs[2y+1] = F(xp,x) for the pair of y; computed in parallel, applied in order.
	zs := make([]uint64, vol)
	parallelFor(half, workersFor(bl), func(lo, hi uint64) {
		for y := lo; y < hi; y++ {
			x, xp := a[2*y], a[2*y+1]
			if x == 0 || xp == 0 {
				continue
			}
			zs[2*y] = uint64(pocutil.F(pocutil.PoCValue(x), pocutil.PoCValue(xp), bl, pubKeyHash))
			zs[2*y+1] = uint64(pocutil.F(pocutil.PoCValue(xp), pocutil.PoCValue(x), bl, pubKeyHash))
		}
	})
	for y := uint64(0); y < half; y++ {
		x, xp := a[2*y], a[2*y+1]
		if x == 0 || xp == 0 {
			continue
		}
		z, zp := zs[2*y], zs[2*y+1]
		t.X[z], t.XP[z] = x, xp
		t.X[zp], t.XP[zp] = xp, x
	}
	return t
}

// BuildTable is the whole construction for one public key hash and bit length.
func BuildTable(pubKeyHash pocutil.Hash, bl int) *Table {
	return BuildTableFromA(pubKeyHash, bl, BuildMapA(pubKeyHash, bl))
}

// Len is the number of entries (2^BL).
func (t *Table) Len() uint64 { return uint64(len(t.X)) }

// Get returns the pair stored at z ((0,0) when empty).
func (t *Table) Get(z uint64) (x, xp uint64) { return t.X[z], t.XP[z] }

// Empty reports whether the construction yields no pair at z.
func (t *Table) Empty(z uint64) bool { return t.X[z] == 0 && t.XP[z] == 0 }

// Bytes returns the pair at z in the on-disk record encoding (little endian, RecordSize(BL) bytes each).
func (t *Table) Bytes(z uint64) (xb, xpb []byte) {
	return pocutil.PoCValue2Bytes(pocutil.PoCValue(t.X[z]), t.BL), pocutil.PoCValue2Bytes(pocutil.PoCValue(t.XP[z]), t.BL)
}

// NonEmpty counts the z for which the construction yields a pair.
func (t *Table) NonEmpty() uint64 {
	var n uint64
	for z := range t.X {
		if t.X[z] != 0 || t.XP[z] != 0 {
			n++
		}
	}
	return n
}

// ForChallenge returns the entry a proof for challenge must be served from.
func (t *Table) ForChallenge(challenge pocutil.Hash) (z, x, xp uint64) {
	z = uint64(pocutil.CutHash(challenge, t.BL))
	return z, t.X[z], t.XP[z]
}

// Sound reports whether (x,xp) given in record encoding is a valid proof for prefix z:
// P(x) == Flip(P(xp)) and F(x,xp) == z — the relation poc.DefaultProof.Verify checks
// (without its bit-length range and plot-filter conditions). Independent of any tie-break.
func Sound(pubKeyHash pocutil.Hash, bl int, z uint64, xb, xpb []byte) bool {
	y := pocutil.PB(xb, bl, pubKeyHash)
	yp := pocutil.PB(xpb, bl, pubKeyHash)
	if y != pocutil.FlipValue(yp, bl) {
		return false
	}
	return uint64(pocutil.FB(xb, xpb, bl, pubKeyHash)) == z
}

// SelfCheck validates a table against the definition without using BuildTable's code path:
// every non-empty entry is sound, every entry's x values are the highest preimages of their y
// (checked through an independently computed "highest preimage" map), and entries come in
// mirrored pairs. Returns "" when fine. Intended for small bit lengths (start-up self-test).
func (t *Table) SelfCheck() string {
	bl, pkh := t.BL, t.PKH
	vol := t.Len()
	top := make(map[uint64]uint64, vol) // y -> highest x with P(x) = y (x = 0 never recorded)
	for x := uint64(1); x < vol; x++ {
		top[uint64(pocutil.P(pocutil.PoCValue(x), bl, pkh))] = x
	}
	for z := uint64(0); z < vol; z++ {
		x, xp := t.X[z], t.XP[z]
		if x == 0 && xp == 0 {
			continue
		}
		if x == 0 || xp == 0 {
			return "half-empty entry"
		}
		xb, xpb := t.Bytes(z)
		if !Sound(pkh, bl, z, xb, xpb) {
			return "unsound entry"
		}
		if top[uint64(pocutil.P(pocutil.PoCValue(x), bl, pkh))] != x || top[uint64(pocutil.P(pocutil.PoCValue(xp), bl, pkh))] != xp {
			return "entry does not use the highest preimage"
		}
	}
	// completeness: every y < half with both preimages present must land at both of its z, unless overwritten by a later y
	half := vol / 2
	type pair struct{ x, xp uint64 }
	want := make(map[uint64]pair)
	for y := uint64(0); y < half; y++ {
		x, okx := top[y]
		xp, okp := top[uint64(pocutil.FlipValue(pocutil.PoCValue(y), bl))]
		if !okx || !okp {
			continue
		}
		want[uint64(pocutil.F(pocutil.PoCValue(x), pocutil.PoCValue(xp), bl, pkh))] = pair{x, xp}
		want[uint64(pocutil.F(pocutil.PoCValue(xp), pocutil.PoCValue(x), bl, pkh))] = pair{xp, x}
	}
	if uint64(len(want)) != t.NonEmpty() {
		return "set of non-empty z differs from the definition"
	}
	for z, p := range want {
		if t.X[z] != p.x || t.XP[z] != p.xp {
			return "entry differs from the definition"
		}
	}
	return ""
}
