package ref

import (
	"fmt"
	"os"
	"testing"
	"time"

	"github.com/massnetorg/mass-core/poc/pocutil"
)

func TestBuildTableSelfCheck(t *testing.T) {
	for i, bl := range []int{6, 8, 9, 10, 12, 14} {
		pkh := pocutil.DoubleSHA256([]byte(fmt.Sprintf("refplot-test-%d", i)))
		tb := BuildTable(pkh, bl)
		if msg := tb.SelfCheck(); msg != "" {
			t.Fatalf("bl %d: %s", bl, msg)
		}
		if tb.NonEmpty() == 0 {
			t.Fatalf("bl %d: empty table", bl)
		}
	}
}

// The parallel path (bl >= 20) must give the same table as the sequential one.
func TestParallelEqualsSequential(t *testing.T) {
	pkh := pocutil.DoubleSHA256([]byte("refplot-par"))
	const bl = 20
	par := BuildTable(pkh, bl)
	vol := uint64(1) << bl
	a := make([]uint64, vol)
	for x := uint64(0); x < vol; x++ {
		a[SlotA(pocutil.P(pocutil.PoCValue(x), bl, pkh), bl)] = x
	}
	X, XP := make([]uint64, vol), make([]uint64, vol)
	for y := uint64(0); y < vol/2; y++ {
		x, xp := a[2*y], a[2*y+1]
		if x == 0 || xp == 0 {
			continue
		}
		z := pocutil.F(pocutil.PoCValue(x), pocutil.PoCValue(xp), bl, pkh)
		X[z], XP[z] = x, xp
		zp := pocutil.F(pocutil.PoCValue(xp), pocutil.PoCValue(x), bl, pkh)
		X[zp], XP[zp] = xp, x
	}
	for z := uint64(0); z < vol; z++ {
		if X[z] != par.X[z] || XP[z] != par.XP[z] {
			t.Fatalf("z %d: sequential (%d,%d) parallel (%d,%d)", z, X[z], XP[z], par.X[z], par.XP[z])
		}
	}
}

func TestBuildTimes(t *testing.T) {
	if os.Getenv("REFPLOT_TIMES") == "" {
		t.Skip("set REFPLOT_TIMES=1")
	}
	pkh := pocutil.DoubleSHA256([]byte("refplot-times"))
	for _, bl := range []int{16, 20, 24} {
		t0 := time.Now()
		tb := BuildTable(pkh, bl)
		t.Logf("bl %d: %v, %d non-empty of %d", bl, time.Since(t0), tb.NonEmpty(), tb.Len())
	}
}
