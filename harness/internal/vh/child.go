package vh

import (
	"bufio"
	"os"
	"os/exec"
	"regexp"
	"strings"
	"syscall"
	"time"
)

// ChildResult describes how a child process ended.
type ChildResult struct {
	ExitCode int
	Signal   string
	TimedOut bool
	OutFile  string
	Wall     time.Duration
}

// RunChild runs argv with extra env, stdout+stderr to outFile. After timeout it
// sends SIGQUIT (Go dumps all goroutines), then SIGKILL 5 s later.
func RunChild(argv []string, env []string, outFile string, timeout time.Duration) ChildResult {
	res := ChildResult{OutFile: outFile}
	f, err := os.Create(outFile)
	if err != nil {
		res.ExitCode = -1
		return res
	}
	defer f.Close()
	cmd := exec.Command(argv[0], argv[1:]...)
	cmd.Env = append(os.Environ(), env...)
	cmd.Stdout = f
	cmd.Stderr = f
	cmd.SysProcAttr = &syscall.SysProcAttr{Setpgid: true}
	t0 := time.Now()
	if err := cmd.Start(); err != nil {
		res.ExitCode = -1
		return res
	}
	done := make(chan error, 1)
	go func() { done <- cmd.Wait() }()
	select {
	case <-done:
	case <-time.After(timeout):
		res.TimedOut = true
		cmd.Process.Signal(syscall.SIGQUIT)
		select {
		case <-done:
		case <-time.After(8 * time.Second):
			syscall.Kill(-cmd.Process.Pid, syscall.SIGKILL)
			<-done
		}
	}
	res.Wall = time.Since(t0)
	if ps := cmd.ProcessState; ps != nil {
		res.ExitCode = ps.ExitCode()
		if ws, ok := ps.Sys().(syscall.WaitStatus); ok && ws.Signaled() {
			res.Signal = ws.Signal().String()
		}
	}
	return res
}

var fatalRe = regexp.MustCompile(`^(panic: |fatal error: |SIGSEGV|unexpected fault address|\[signal SIG)`)

// ScanFatal returns the lines of a child's output that indicate a panic or Go fatal error,
// each followed by up to ctx lines of context.
func ScanFatal(path string, ctx int) []string {
	f, err := os.Open(path)
	if err != nil {
		return nil
	}
	defer f.Close()
	var out []string
	sc := bufio.NewScanner(f)
	sc.Buffer(make([]byte, 1<<20), 1<<24)
	left := 0
	for sc.Scan() {
		l := sc.Text()
		if fatalRe.MatchString(l) {
			out = append(out, l)
			left = ctx
			continue
		}
		if left > 0 {
			out = append(out, "  "+l)
			left--
		}
	}
	return out
}

// ReadLines reads a whole file as lines (long lines allowed).
func ReadLines(path string) []string {
	b, err := os.ReadFile(path)
	if err != nil {
		return nil
	}
	s := strings.TrimRight(string(b), "\n")
	if s == "" {
		return nil
	}
	return strings.Split(s, "\n")
}

// DyingFrames returns the function lines of the goroutine a Go process died in: the first goroutine block after the
// first panic / fatal-error headline of the child's output that has a frame outside package runtime (a crash inside
// C code shows the scheduler's goroutine 0 first). Empty if there is no such block.
func DyingFrames(path string) []string {
	lines := ReadLines(path)
	i := 0
	for ; i < len(lines); i++ {
		if fatalRe.MatchString(lines[i]) {
			break
		}
	}
	for i < len(lines) {
		for ; i < len(lines); i++ {
			if strings.HasPrefix(lines[i], "goroutine ") && strings.Contains(lines[i], "[") {
				break
			}
		}
		var out []string
		own := false
		for i++; i < len(lines); i++ {
			l := lines[i]
			if strings.TrimSpace(l) == "" {
				break
			}
			if strings.HasPrefix(l, "\t") || strings.HasPrefix(l, " ") {
				continue
			}
			out = append(out, l)
			if !strings.HasPrefix(l, "runtime.") && !strings.HasPrefix(l, "runtime/") && !strings.HasPrefix(l, "created by runtime.") {
				own = true
			}
		}
		if own {
			return out
		}
	}
	return nil
}

// CodeUnderTestFrame returns the first frame of the dying goroutine that is not runtime, standard library or harness
// code ("" if there is none: the process was taken down by the harness itself, which is never a verdict).
func CodeUnderTestFrame(frames []string) string {
	for _, f := range frames {
		f = strings.TrimPrefix(f, "created by ")
		for _, p := range []string{"massnet.org/mass/", "github.com/", "gopkg.in/", "golang.org/x/", "go.etcd.io/"} {
			if strings.HasPrefix(f, p) {
				if j := strings.LastIndex(f, "("); j > 0 {
					f = f[:j]
				}
				return f
			}
		}
	}
	return ""
}
