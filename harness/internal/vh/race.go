package vh

import (
	"os"
	"path/filepath"
	"sort"
	"strings"
)

// RaceReport is one "WARNING: DATA RACE" block reduced to the top non-runtime
// frame of each of its two accesses.
type RaceReport struct {
	A, B   string   // function names of the top non-runtime frames of the two accesses
	AFile  string   // file:line of A
	BFile  string   // file:line of B
	Stacks []string // the raw block
}

// Pair returns the unordered function pair used for de-duplication.
func (r RaceReport) Pair() string {
	a, b := r.A, r.B
	if a > b {
		a, b = b, a
	}
	return a + " <-> " + b
}

// InRepo reports whether both accesses have their first non-runtime frame in prefix.
func (r RaceReport) InRepo(prefix string) bool {
	return strings.HasPrefix(r.A, prefix) && strings.HasPrefix(r.B, prefix)
}

// ParseRaceLogs parses every file matching glob (GORACE log_path=<x> writes <x>.<pid>).
func ParseRaceLogs(glob string) []RaceReport {
	files, _ := filepath.Glob(glob)
	sort.Strings(files)
	var out []RaceReport
	for _, f := range files {
		b, err := os.ReadFile(f)
		if err != nil {
			continue
		}
		out = append(out, ParseRaceText(string(b))...)
	}
	return out
}

func ParseRaceText(text string) []RaceReport {
	var out []RaceReport
	blocks := strings.Split(text, "WARNING: DATA RACE")
	for _, blk := range blocks[1:] {
		if i := strings.Index(blk, "=================="); i >= 0 {
			blk = blk[:i]
		}
		lines := strings.Split(blk, "\n")
		// access sections start with "Write at"/"Read at"/"Previous write at"/"Previous read at"
		var tops, files []string
		inAccess := false
		gotTop := false
		for i := 0; i < len(lines); i++ {
			l := lines[i]
			t := strings.TrimSpace(l)
			if strings.HasPrefix(t, "Write at") || strings.HasPrefix(t, "Read at") ||
				strings.HasPrefix(t, "Previous write at") || strings.HasPrefix(t, "Previous read at") ||
				strings.HasPrefix(t, "Atomic") || strings.HasPrefix(t, "Previous atomic") {
				inAccess, gotTop = true, false
				continue
			}
			if strings.HasPrefix(t, "Goroutine ") {
				inAccess = false
				continue
			}
			if inAccess && !gotTop && t != "" && !strings.HasPrefix(l, "      ") && strings.HasPrefix(l, "  ") {
				fn := t
				if j := strings.LastIndex(fn, "("); j > 0 {
					fn = fn[:j]
				}
				if strings.HasPrefix(fn, "runtime.") || strings.HasPrefix(fn, "sync/atomic.") || strings.HasPrefix(fn, "internal/") {
					continue
				}
				tops = append(tops, fn)
				if i+1 < len(lines) {
					files = append(files, strings.TrimSpace(lines[i+1]))
				} else {
					files = append(files, "")
				}
				gotTop = true
			}
		}
		if len(tops) >= 2 {
			out = append(out, RaceReport{A: tops[0], B: tops[1], AFile: files[0], BFile: files[1], Stacks: lines})
		} else if len(tops) == 1 {
			out = append(out, RaceReport{A: tops[0], B: "?", AFile: files[0], Stacks: lines})
		}
	}
	return out
}
