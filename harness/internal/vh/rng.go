// Package vh is the shared runtime-verification harness library: seeded PRNG,
// evidence writer, known-findings matcher, child-process runner, race-log filter.
package vh

import (
	"encoding/binary"
	"hash/fnv"
)

// Rng is a splitmix64 stream. Case lists are a pure function of (seed, tier).
type Rng struct{ s uint64 }

func NewRng(seed uint64) *Rng { return &Rng{s: seed} }

// Derive returns an independent stream named by label and index.
func (r *Rng) Derive(label string, idx int) *Rng {
	h := fnv.New64a()
	var b [16]byte
	binary.LittleEndian.PutUint64(b[:8], r.s)
	binary.LittleEndian.PutUint64(b[8:], uint64(idx))
	h.Write(b[:])
	h.Write([]byte(label))
	n := &Rng{s: h.Sum64()}
	n.Uint64()
	return n
}

func (r *Rng) Uint64() uint64 {
	r.s += 0x9e3779b97f4a7c15
	z := r.s
	z = (z ^ (z >> 30)) * 0xbf58476d1ce4e5b9
	z = (z ^ (z >> 27)) * 0x94d049bb133111eb
	return z ^ (z >> 31)
}

func (r *Rng) Uint32() uint32 { return uint32(r.Uint64() >> 32) }

// Intn returns a value in [0,n). n<=0 returns 0.
func (r *Rng) Intn(n int) int {
	if n <= 0 {
		return 0
	}
	return int(r.Uint64() % uint64(n))
}

// Range returns a value in [lo,hi].
func (r *Rng) Range(lo, hi int) int { return lo + r.Intn(hi-lo+1) }

func (r *Rng) Bool() bool { return r.Uint64()&1 == 1 }

// Chance is true with probability num/den.
func (r *Rng) Chance(num, den int) bool { return r.Intn(den) < num }

func (r *Rng) Bytes(n int) []byte {
	b := make([]byte, n)
	for i := 0; i < n; i += 8 {
		v := r.Uint64()
		for j := 0; j < 8 && i+j < n; j++ {
			b[i+j] = byte(v >> (8 * j))
		}
	}
	return b
}

func (r *Rng) Perm(n int) []int {
	p := make([]int, n)
	for i := range p {
		p[i] = i
	}
	for i := n - 1; i > 0; i-- {
		j := r.Intn(i + 1)
		p[i], p[j] = p[j], p[i]
	}
	return p
}

// PickS picks one of the strings.
func (r *Rng) PickS(xs ...string) string { return xs[r.Intn(len(xs))] }

// PickI picks one of the ints.
func (r *Rng) PickI(xs ...int) int { return xs[r.Intn(len(xs))] }

// Weighted picks index i with probability w[i]/sum(w).
func (r *Rng) Weighted(w ...int) int {
	t := 0
	for _, x := range w {
		t += x
	}
	k := r.Intn(t)
	for i, x := range w {
		if k < x {
			return i
		}
		k -= x
	}
	return len(w) - 1
}

// Hash64 hashes arbitrary byte strings into a case identity.
func Hash64(parts ...[]byte) uint64 {
	h := fnv.New64a()
	for _, p := range parts {
		var l [4]byte
		binary.LittleEndian.PutUint32(l[:], uint32(len(p)))
		h.Write(l[:])
		h.Write(p)
	}
	return h.Sum64()
}

func HashS(parts ...string) uint64 {
	bs := make([][]byte, len(parts))
	for i, p := range parts {
		bs[i] = []byte(p)
	}
	return Hash64(bs...)
}
