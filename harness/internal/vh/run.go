package vh

import (
	"encoding/json"
	"flag"
	"fmt"
	"os"
	"path/filepath"
	"runtime"
	"sort"
	"strconv"
	"strings"
	"sync"
	"time"

	"github.com/sirupsen/logrus"
)

// Finding is one entry of /verif/known_findings.json.
type Finding struct {
	Property string            `json:"property"`
	ID       string            `json:"id"`
	Kind     string            `json:"kind"`
	Match    map[string]string `json:"match"`
	What     string            `json:"what"`
}

type findingsFile struct {
	Findings []Finding                `json:"findings"`
	Fixed    []map[string]interface{} `json:"fixed"`
}

// Violation is one oracle failure with everything needed to replay it.
type Violation struct {
	Kind   string                 `json:"kind"`
	Attrs  map[string]string      `json:"attrs"`
	Detail map[string]interface{} `json:"detail"`
	Case   int                    `json:"case"`
}

// Run collects what one check observed and turns it into evidence + exit code.
type Run struct {
	ID, Tier, Level string
	Seed            int64
	Only            int // >=0: replay exactly this case index
	ReplayFile      string
	VerifDir        string
	Scratch         string

	mu           sync.Mutex
	start        time.Time
	evaluations  int
	distinct     map[uint64]bool
	samples      []interface{}
	counters     map[string]int64
	extra        map[string]interface{}
	violations   []Violation
	knownHit     map[string]int
	findings     []Finding
	inconclusive []string
	dropped      int
	assumptions  []string
	replayPaths  []string
}

// NewRun parses the common command line (-tier -seed -replay -only) and env
// (VERIF_TIER, VERIF_SEED, VERIF_DIR).
func NewRun(id, level string) *Run {
	r := &Run{ID: id, Level: level, Only: -1, start: time.Now(),
		distinct: map[uint64]bool{}, counters: map[string]int64{}, extra: map[string]interface{}{}, knownHit: map[string]int{}}
	tier := os.Getenv("VERIF_TIER")
	if tier == "" {
		tier = "quick"
	}
	seed := int64(1)
	if s := os.Getenv("VERIF_SEED"); s != "" {
		if v, err := strconv.ParseInt(s, 10, 64); err == nil {
			seed = v
		}
	}
	flag.StringVar(&r.Tier, "tier", tier, "quick|thorough")
	flag.Int64Var(&r.Seed, "seed", seed, "seed")
	flag.IntVar(&r.Only, "only", -1, "run only this case index")
	flag.StringVar(&r.ReplayFile, "replay", "", "replay file")
	flag.Parse()
	r.VerifDir = os.Getenv("VERIF_DIR")
	if r.VerifDir == "" {
		r.VerifDir = "/verif"
	}
	if r.ReplayFile != "" {
		b, err := os.ReadFile(r.ReplayFile)
		if err != nil {
			fmt.Println("cannot read replay file:", err)
			os.Exit(2)
		}
		var rp struct {
			Seed int64  `json:"seed"`
			Tier string `json:"tier"`
			Case int    `json:"case"`
		}
		if err := json.Unmarshal(b, &rp); err != nil {
			fmt.Println("bad replay file:", err)
			os.Exit(2)
		}
		r.Seed, r.Tier, r.Only = rp.Seed, rp.Tier, rp.Case
	}
	if r.Tier != "quick" && r.Tier != "thorough" {
		r.Tier = "quick"
	}
	r.loadFindings()
	sc, err := os.MkdirTemp("", "verif-"+strings.ToLower(id)+"-")
	if err != nil {
		fmt.Println("cannot create scratch dir:", err)
		os.Exit(2)
	}
	r.Scratch = sc
	// The code under test ends the node through FATAL log entries (logrus: exit handlers, then os.Exit(1)). In a driver
	// that runs it in-process that would end the run without a verdict: say what happened, and where, on the way out.
	logrus.RegisterExitHandler(func() {
		buf := make([]byte, 16<<10)
		buf = buf[:runtime.Stack(buf, false)]
		fmt.Printf("FATAL-LOG-EXIT property=%s the code under test ended the process through a FATAL log entry\n%s\n", id, buf)
	})
	return r
}

func (r *Run) Thorough() bool { return r.Tier == "thorough" }

// N picks the tier-dependent size.
func (r *Run) N(quick, thorough int) int {
	if r.Thorough() {
		return thorough
	}
	return quick
}

// Rng returns the root stream of this property for this seed.
func (r *Run) Rng() *Rng { return NewRng(uint64(r.Seed)).Derive(r.ID, 0) }

// Want reports whether case index i should run (all, or only the replayed one).
func (r *Run) Want(i int) bool { return r.Only < 0 || r.Only == i }

func (r *Run) loadFindings() {
	b, err := os.ReadFile(filepath.Join(r.VerifDir, "known_findings.json"))
	if err != nil {
		return
	}
	var ff findingsFile
	if err := json.Unmarshal(b, &ff); err != nil {
		fmt.Println("known_findings.json unreadable:", err)
		os.Exit(2)
	}
	for _, f := range ff.Findings {
		if f.Property == r.ID {
			r.findings = append(r.findings, f)
		}
	}
}

// Case records one executed case; hash identifies it, nontrivial per the rule of the property.
func (r *Run) Case(hash uint64, nontrivial bool) {
	r.mu.Lock()
	r.evaluations++
	if nontrivial {
		r.distinct[hash] = true
	}
	r.mu.Unlock()
}

// Eval counts executions that are not separately tracked as distinct cases.
func (r *Run) Eval(n int) {
	r.mu.Lock()
	r.evaluations += n
	r.mu.Unlock()
}

func (r *Run) Sample(v interface{}) {
	r.mu.Lock()
	if len(r.samples) < 6 {
		r.samples = append(r.samples, v)
	}
	r.mu.Unlock()
}

func (r *Run) Count(name string, n int64) {
	r.mu.Lock()
	r.counters[name] += n
	r.mu.Unlock()
}

func (r *Run) Counter(name string) int64 {
	r.mu.Lock()
	defer r.mu.Unlock()
	return r.counters[name]
}

func (r *Run) Set(name string, v interface{}) {
	r.mu.Lock()
	r.extra[name] = v
	r.mu.Unlock()
}

func (r *Run) Assume(s string) {
	r.mu.Lock()
	r.assumptions = append(r.assumptions, s)
	r.mu.Unlock()
}

// Drop records one case that could not be judged (inconclusive at case level).
func (r *Run) Drop(reason string) {
	r.mu.Lock()
	r.dropped++
	r.counters["dropped:"+reason]++
	r.mu.Unlock()
}

// Inconclusive marks the whole check inconclusive.
func (r *Run) Inconclusive(reason string) {
	r.mu.Lock()
	r.inconclusive = append(r.inconclusive, reason)
	r.mu.Unlock()
}

// Violate reports an oracle failure. If it matches a known finding it is only
// counted; otherwise a replay file is written and a VIOLATION line is printed
// at Finish.
func (r *Run) Violate(caseIdx int, kind string, attrs map[string]string, detail map[string]interface{}) {
	r.mu.Lock()
	defer r.mu.Unlock()
	for _, f := range r.findings {
		if f.Kind != kind {
			continue
		}
		ok := true
		for k, v := range f.Match {
			if attrs[k] != v {
				ok = false
				break
			}
		}
		if ok {
			r.knownHit[f.ID]++
			return
		}
	}
	ab, _ := json.Marshal(attrs)
	r.counters["VIOLATED:"+kind+string(ab)]++
	if r.counters["VIOLATED:"+kind+string(ab)] > 3 {
		return // at most three replay files per (kind, attrs)
	}
	if len(r.violations) < 60 {
		r.violations = append(r.violations, Violation{Kind: kind, Attrs: attrs, Detail: detail, Case: caseIdx})
	} else {
		r.counters["violations_not_listed"]++
	}
}

func (r *Run) Violations() int {
	r.mu.Lock()
	defer r.mu.Unlock()
	return len(r.violations)
}

// Finish writes evidence, prints the verdict lines and exits.
// minJudged is the floor of distinct non-trivial cases below which the run is inconclusive.
func (r *Run) Finish(rule string, minJudged int) {
	r.mu.Lock()
	defer r.mu.Unlock()
	os.RemoveAll(r.Scratch)
	wall := time.Since(r.start).Seconds()

	// replay files
	for i, v := range r.violations {
		dir := filepath.Join(r.VerifDir, "replays", r.ID)
		os.MkdirAll(dir, 0o755)
		p := filepath.Join(dir, fmt.Sprintf("%s-seed%d-case%d-%d.json", sanitize(v.Kind), r.Seed, v.Case, i))
		b, _ := json.MarshalIndent(map[string]interface{}{
			"property": r.ID, "seed": r.Seed, "tier": r.Tier, "case": v.Case,
			"kind": v.Kind, "attrs": v.Attrs, "detail": v.Detail,
		}, "", " ")
		os.WriteFile(p, b, 0o644)
		r.replayPaths = append(r.replayPaths, p)
	}

	cov := map[string]interface{}{
		"evaluations":         r.evaluations,
		"distinct_nontrivial": len(r.distinct),
		"rule":                rule,
		"samples":             r.samples,
		"dropped_cases":       r.dropped,
	}
	if len(r.samples) == 0 {
		cov["samples"] = []interface{}{}
	}
	keys := make([]string, 0, len(r.counters))
	for k := range r.counters {
		keys = append(keys, k)
	}
	sort.Strings(keys)
	cnt := map[string]int64{}
	for _, k := range keys {
		cnt[k] = r.counters[k]
	}
	cov["counters"] = cnt
	for k, v := range r.extra {
		cov[k] = v
	}
	if len(r.knownHit) > 0 {
		cov["known_findings_reproduced"] = r.knownHit
	}
	verdict := "held"
	if len(r.violations) > 0 {
		verdict = "violated"
	} else if len(r.inconclusive) > 0 || (r.Only < 0 && len(r.distinct) < minJudged) {
		verdict = "inconclusive"
		if len(r.distinct) < minJudged {
			r.inconclusive = append(r.inconclusive, fmt.Sprintf("only %d distinct non-trivial cases judged, floor is %d", len(r.distinct), minJudged))
		}
	}
	cov["verdict"] = verdict
	if len(r.inconclusive) > 0 {
		cov["inconclusive_reasons"] = r.inconclusive
	}
	ev := map[string]interface{}{
		"property_id": r.ID, "tier": r.Tier, "seed": r.Seed, "level": r.Level,
		"coverage": cov, "assumptions": r.assumptions, "wall_s": float64(int(wall*100)) / 100,
		"violations": len(r.violations),
	}
	if r.assumptions == nil {
		ev["assumptions"] = []string{}
	}
	if r.Only < 0 { // replays do not overwrite evidence
		os.MkdirAll(filepath.Join(r.VerifDir, "evidence"), 0o755)
		b, _ := json.MarshalIndent(ev, "", " ")
		os.WriteFile(filepath.Join(r.VerifDir, "evidence", r.ID+".json"), append(b, '\n'), 0o644)
	}

	fmt.Printf("SUMMARY property=%s tier=%s seed=%d evaluations=%d distinct_nontrivial=%d dropped=%d wall_s=%.1f verdict=%s\n",
		r.ID, r.Tier, r.Seed, r.evaluations, len(r.distinct), r.dropped, wall, verdict)
	for _, k := range keys {
		fmt.Printf("  %s=%d\n", k, r.counters[k])
	}
	for _, f := range r.findings {
		if n := r.knownHit[f.ID]; n > 0 {
			fmt.Printf("KNOWN-FINDING: property=%s %s [%s, reproduced %d times]\n", r.ID, f.What, f.ID, n)
		}
	}
	for i, v := range r.violations {
		a, _ := json.Marshal(v.Attrs)
		if i >= 12 {
			fmt.Printf("... %d more violations (replay files under %s)\n", len(r.violations)-i, filepath.Join(r.VerifDir, "replays", r.ID))
			break
		}
		fmt.Printf("VIOLATION property=%s replay=%s kind=%s attrs=%s\n", r.ID, r.replayPaths[i], v.Kind, a)
	}
	switch verdict {
	case "violated":
		os.Exit(1)
	case "inconclusive":
		for _, s := range r.inconclusive {
			fmt.Printf("INCONCLUSIVE property=%s reason=%s\n", r.ID, s)
		}
		os.Exit(2)
	}
	os.Exit(0)
}

func sanitize(s string) string {
	b := []byte(s)
	for i, c := range b {
		if !(c >= 'a' && c <= 'z' || c >= 'A' && c <= 'Z' || c >= '0' && c <= '9' || c == '-' || c == '_') {
			b[i] = '_'
		}
	}
	return string(b)
}

// Parallel runs f(i) for i in [0,n) on up to workers goroutines.
func Parallel(n, workers int, f func(i int)) {
	if workers < 1 {
		workers = 1
	}
	var wg sync.WaitGroup
	ch := make(chan int)
	for w := 0; w < workers; w++ {
		wg.Add(1)
		go func() {
			defer wg.Done()
			for i := range ch {
				f(i)
			}
		}()
	}
	for i := 0; i < n; i++ {
		ch <- i
	}
	close(ch)
	wg.Wait()
}
