package wl

import (
	"sync/atomic"
	"time"

	"massnet.org/mass/poc/wallet/db"
)

// DelayDB widens the window between "the transaction is committed" and whatever the caller does next (publish the
// result in memory, release a lock): after a seeded share of the commits the committing goroutine sleeps. In code
// that holds its lock across store update and in-memory publication this only costs time; in code that does not,
// another operation can now run completely inside the window.
type DelayDB struct {
	db.DB
	seed    uint64
	n       uint64
	Percent uint64        // share of commits followed by a pause
	Max     time.Duration // longest pause
	Pauses  int64
}

func NewDelayDB(inner db.DB, seed uint64, percent int, max time.Duration) *DelayDB {
	return &DelayDB{DB: inner, seed: seed, Percent: uint64(percent), Max: max}
}

func (d *DelayDB) BeginTx() (db.DBTransaction, error) {
	tx, err := d.DB.BeginTx()
	if err != nil {
		return nil, err
	}
	return &delayTx{DBTransaction: tx, d: d}, nil
}

type delayTx struct {
	db.DBTransaction
	d *DelayDB
}

func mix64(x uint64) uint64 {
	x += 0x9e3779b97f4a7c15
	x = (x ^ (x >> 30)) * 0xbf58476d1ce4e5b9
	x = (x ^ (x >> 27)) * 0x94d049bb133111eb
	return x ^ (x >> 31)
}

func (t *delayTx) Commit() error {
	err := t.DBTransaction.Commit()
	d := t.d
	h := mix64(d.seed ^ atomic.AddUint64(&d.n, 1))
	if h%100 < d.Percent {
		atomic.AddInt64(&d.Pauses, 1)
		time.Sleep(time.Duration(mix64(h) % uint64(d.Max)))
	}
	return err
}
