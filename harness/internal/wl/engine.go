package wl

import (
	"bytes"
	"crypto/hmac"
	"crypto/sha256"
	"crypto/sha512"
	"encoding/hex"
	"encoding/json"
	"fmt"
	"os"
	"path/filepath"
	"sort"
	"strconv"
	"strings"

	"github.com/massnetorg/mass-core/pocec"
	"github.com/massnetorg/mass-core/wire"
	"massnet.org/mass/poc/wallet/db"
	"massnet.org/mass/poc/wallet/keystore"
	"massnet.org/mass/poc/wallet/keystore/snacl"
	"verif/harness/internal/vh"
)

// MKey is one key the model knows to be issued.
type MKey struct {
	Key
	IssuedLocked bool   // issued while the wallet was locked (public derivation)
	Src          string // next | genpub | import
}

// MKs is the model of one keystore: only acknowledged operations change it.
type MKs struct {
	ID     string
	Seed   []byte // nil when the wallet generated the seed itself
	D      *Derived
	Remark string
	Next   [2]uint32
	Keys   []MKey
}

func (k *MKs) Snap() KsSnap {
	s := KsSnap{ID: k.ID, Remark: k.Remark}
	for _, x := range k.Keys {
		s.Keys = append(s.Keys, x.Key)
	}
	sort.Slice(s.Keys, func(i, j int) bool {
		if s.Keys[i].Branch != s.Keys[j].Branch {
			return s.Keys[i].Branch < s.Keys[j].Branch
		}
		return s.Keys[i].Index < s.Keys[j].Index
	})
	return s
}

// Export is one exported keystore file with the state it was taken in.
type Export struct {
	ID   string
	JSON []byte
	Pass []byte // private passphrase in force at export
	Snap KsSnap
	Seed []byte
	D    *Derived
}

// Model is the abstract wallet: passphrases, lock flag, keystores.
type Model struct {
	Pub     []byte
	Priv    []byte // nil while the wallet has no keystore
	OldPriv [][]byte
	OldPub  [][]byte
	Locked  bool
	Ks      map[string]*MKs
	Order   []string
	Exports []*Export
	Issued  map[string]string // pubkey hex -> keystore id, every key ever issued by this wallet (for uniqueness)
	Deleted [][]byte          // seeds of keystores that were deleted (a keystore may legitimately be created from them again)
}

func (m *Model) Snap() Snap {
	s := Snap{Locked: m.Locked}
	for _, id := range m.Order {
		s.Ks = append(s.Ks, m.Ks[id].Snap())
	}
	sort.Slice(s.Ks, func(i, j int) bool { return s.Ks[i].ID < s.Ks[j].ID })
	return s
}

func (m *Model) remove(id string) {
	delete(m.Ks, id)
	for i, x := range m.Order {
		if x == id {
			m.Order = append(m.Order[:i], m.Order[i+1:]...)
			break
		}
	}
	if len(m.Order) == 0 {
		if m.Priv != nil {
			m.OldPriv = append(m.OldPriv, m.Priv)
		}
		m.Priv = nil
	}
}

// Op is one step of a history.
type Op struct {
	Kind     string `json:"op"`
	K        int    `json:"k,omitempty"` // keystore selector
	N        int    `json:"n,omitempty"` // number of addresses / key selector
	Internal bool   `json:"int,omitempty"`
	PC       string `json:"pc,omitempty"` // passphrase class of the main passphrase argument
	NPC      string `json:"npc,omitempty"`
	Remark   string `json:"remark,omitempty"`
	SeedKind string `json:"seed,omitempty"` // fresh | dup | short | empty
	X        int    `json:"x,omitempty"`    // export selector
	// create only: the wallet's entropy source fails EntropyFail reads in a row after EntropySkip successful ones
	// (drivers that can inject this set wl.EntropyFault; elsewhere the fields are ignored)
	EntropySkip int `json:"entropy_skip,omitempty"`
	EntropyFail int `json:"entropy_fail,omitempty"`
	// genpub only: the commit of the issuing transaction fails (needs a wallet opened over a FaultDB: Env.Wrap set by the
	// driver and at least one restart; otherwise the request runs without a fault)
	CommitFault bool `json:"commit_fault,omitempty"`
}

// EntropyFault, when a driver sets it, arms (fail > 0) or disarms (0, 0) a transient failure of the entropy source
// the keystore's key generation reads.
var EntropyFault func(skip, fail int)

// Res is what the engine observed for one step.
type Res struct {
	Op   Op
	Err  error
	Ack  bool   // the call reported success
	Note string // e.g. the passphrase class actually used
}

// Front lets a driver route the passphrase-bearing operations through another entry point (the API server).
type Front interface {
	Export(id string, pass []byte) ([]byte, error)
	Import(js, old, np []byte) (string, string, error)
	Unlock(pass []byte) error
	Lock() error
	ChPriv(old, np []byte) error
	ChPub(old, np []byte) error
}

// Env is one running history.
type Env struct {
	heldDeleted []*pocec.PrivateKey   // key objects of keystores deleted while unlocked (inspected at the next Lock)
	extraScan   [][]byte              // error texts handed back to callers since the last scan (they end up in API logs and replies)
	Front       func(w *Wallet) Front // if set, about half of the front-able calls go through it
	logSeen     map[string]int64
	Run         *vh.Run
	Prop        string
	CaseIdx     int
	Rng         *vh.Rng
	Dir         string
	W           *Wallet
	M           *Model
	Trace       []string
	LogDir      string
	Wrap        Wrap
	passSeq     int
	Restarts    int
	Signed      int
	// options
	ScanSecrets bool
	SignAll     bool
	Inspect     bool
	seenPrev    bool
	nontrivial  map[string]bool
}

var passAlphabet = []byte("0123456789abcdefghijklmnopqrstuvwxyzABCDEFGHIJKLMNOPQRSTUVWXYZ@#$%^&")

// FreshPass returns a well-formed 24-character passphrase that cannot occur by accident.
func FreshPass(r *vh.Rng) []byte {
	n := r.Range(12, 40) // lengths vary: code that copies a passphrase into a buffer of the old length must show
	switch r.Intn(8) {   // the boundaries of the legal lengths are favoured: code that truncates or pads at them must show
	case 0, 1:
		n = 40
	case 2:
		n = 6
	}
	b := make([]byte, n)
	for i := range b {
		b[i] = passAlphabet[r.Intn(len(passAlphabet))]
	}
	return b
}

var remarkAlphabet = []string{"", "a", "remark", "with \"quotes\"", "back\\slash", "tab\there", "nl\nline", "\u0001ctl", "ünïcödé", "😀 four-byte", "{\"json\":true}", "null", strings.Repeat("long", 40), "'single'", "</script>", " sep", "trailing space "}

func RandRemark(r *vh.Rng) string {
	s := remarkAlphabet[r.Intn(len(remarkAlphabet))]
	if s != "" && r.Chance(1, 2) {
		s += fmt.Sprintf("-%x", r.Uint32()) // unique, so a read identifies the write it saw
	}
	return s
}

// NewEnv creates a fresh wallet in dir with a fresh public passphrase.
func NewEnv(run *vh.Run, prop string, caseIdx int, rng *vh.Rng, dir string) (*Env, error) {
	e := &Env{Run: run, Prop: prop, CaseIdx: caseIdx, Rng: rng, Dir: dir, nontrivial: map[string]bool{}}
	pub := FreshPass(rng)
	w, err := Create(filepath.Join(dir, "keystore"), pub, nil)
	if err != nil {
		return nil, err
	}
	e.W = w
	e.M = &Model{Pub: pub, Locked: true, Ks: map[string]*MKs{}, Issued: map[string]string{}}
	return e, nil
}

func (e *Env) Close() {
	if e.W != nil {
		e.W.Close()
		e.W = nil
	}
}

// Report files an anomaly under the properties it refutes; only the driver's own property is raised.
func (e *Env) Report(props []string, kind string, attrs map[string]string, detail map[string]interface{}) {
	for _, p := range props {
		if p == e.Prop {
			if detail == nil {
				detail = map[string]interface{}{}
			}
			detail["history"] = append([]string{}, e.Trace...)
			if attrs == nil {
				attrs = map[string]string{}
			}
			e.Run.Violate(e.CaseIdx, kind, attrs, detail)
			return
		}
	}
}

func (e *Env) front() Front {
	if e.Front == nil || e.Rng.Bool() {
		return nil
	}
	e.Run.Count("calls_through_api_front", 1)
	return e.Front(e.W)
}

// LeadingZeroSeed searches a 32-byte seed whose BIP32 master private key has a leading zero byte.
func LeadingZeroSeed(r *vh.Rng) []byte {
	for {
		seed := r.Bytes(32)
		m := hmac.New(sha512.New, []byte("Bitcoin seed"))
		m.Write(seed)
		if m.Sum(nil)[0] == 0 {
			return seed
		}
	}
}

// pass resolves a passphrase class against the model.
func (e *Env) pass(class string) ([]byte, string) {
	m := e.M
	switch class {
	case "cur":
		if m.Priv != nil {
			return append([]byte{}, m.Priv...), "cur"
		}
		return FreshPass(e.Rng), "other"
	case "prev":
		if len(m.OldPriv) > 0 {
			p := m.OldPriv[e.Rng.Intn(len(m.OldPriv))]
			if m.Priv == nil || !bytes.Equal(p, m.Priv) {
				return append([]byte{}, p...), "prev"
			}
		}
		return FreshPass(e.Rng), "other"
	case "pub":
		return append([]byte{}, m.Pub...), "pub"
	case "curnul":
		// the current passphrase followed by NUL bytes: HMAC-based key derivation zero-pads short keys, so a check
		// that only derives the key cannot tell it from the current passphrase - but it is a different passphrase
		if m.Priv != nil {
			return append(append([]byte{}, m.Priv...), make([]byte, e.Rng.Range(1, 3))...), "curnul"
		}
		return FreshPass(e.Rng), "other"
	case "curlong":
		// the current passphrase with legal characters appended, also beyond the longest legal length
		if m.Priv != nil {
			p := append([]byte{}, m.Priv...)
			for i, n := 0, e.Rng.Range(1, 8); i < n; i++ {
				p = append(p, passAlphabet[e.Rng.Intn(len(passAlphabet))])
			}
			return p, "curlong"
		}
		return FreshPass(e.Rng), "other"
	case "bad":
		return []byte(e.Rng.PickS("abc", "has space in it", "star*star*star", strings.Repeat("x", 41), "ünïcödépass", "tab\tpass1")), "bad"
	case "empty":
		return []byte{}, "empty"
	case "cur1":
		if m.Priv != nil {
			if len(m.Priv) >= 40 { // one character different instead of one more (40 is the longest legal passphrase)
				p := append([]byte{}, m.Priv...)
				p[len(p)-1] ^= 1
				if !keystore.ValidatePassphrase(p) {
					p[len(p)-1] = 'x'
				}
				if !bytes.Equal(p, m.Priv) {
					return p, "cur1"
				}
			}
			return append(append([]byte{}, m.Priv...), 'x'), "cur1"
		}
		return FreshPass(e.Rng), "other"
	}
	return FreshPass(e.Rng), "other"
}

// scryptFor: the scrypt cost parameters of a passphrase change. N is the remark-free selector of the operation: every
// fourth change uses parameters at the upper bounds the key store accepts for stored parameters (r = 256 or p = 256 at a
// small N), the others the cheap defaults.
func (e *Env) scryptFor(op Op) *keystore.ScryptOptions {
	switch (len(e.Trace) + op.X) % 8 {
	case 3:
		e.Run.Count("passphrase_changes_with_scrypt_r_at_its_bound", 1)
		return &keystore.ScryptOptions{N: 16, R: 256, P: 1}
	case 7:
		e.Run.Count("passphrase_changes_with_scrypt_p_at_its_bound", 1)
		return &keystore.ScryptOptions{N: 16, R: 1, P: 256}
	}
	return FastScrypt
}

func (e *Env) ks(sel int) *MKs {
	if len(e.M.Order) == 0 {
		return nil
	}
	return e.M.Ks[e.M.Order[((sel%len(e.M.Order))+len(e.M.Order))%len(e.M.Order)]]
}

func short(b []byte) string {
	if len(b) > 8 {
		return hex.EncodeToString(b[:4]) + ".."
	}
	return hex.EncodeToString(b)
}

// Do executes one operation against the real wallet, updates the model on acknowledged success and runs the step oracles.
func (e *Env) Do(op Op) Res {
	m, w := e.M, e.W
	res := Res{Op: op}
	js, _ := json.Marshal(op)
	e.Trace = append(e.Trace, string(js))
	hasKs := len(m.Order) > 0
	switch op.Kind {
	case "create":
		pass, pc := e.pass(op.PC)
		res.Note = pc
		var seed []byte
		switch op.SeedKind {
		case "dup":
			if k := e.ks(op.K); k != nil && k.Seed != nil {
				seed = k.Seed
			} else {
				seed = e.Rng.Bytes(32)
				op.SeedKind = "fresh"
			}
		case "revive":
			// the seed of a keystore that was deleted earlier: creating it again is legitimate and must start from scratch
			if len(m.Deleted) > 0 {
				seed = m.Deleted[e.Rng.Intn(len(m.Deleted))]
			} else {
				seed = e.Rng.Bytes(32)
				op.SeedKind = "fresh"
			}
		case "short":
			seed = e.Rng.Bytes(e.Rng.PickI(1, 16, 31, 33, 64))
		case "empty":
			seed = nil
		default:
			seed = e.Rng.Bytes(32)
			op.SeedKind = "fresh"
			if e.Rng.Chance(1, 4) {
				// a seed whose BIP32 master scalar starts with a zero byte (1 in 256 in the wild): the stored
				// extended keys of such a wallet have leading zeros, which parsing/serialising code likes to mangle
				seed = LeadingZeroSeed(e.Rng)
				op.SeedKind = "fresh-leading-zero-master"
				e.Run.Count("keystores_with_leading_zero_master_scalar", 1)
			}
		}
		e.Trace[len(e.Trace)-1] += fmt.Sprintf(" seed=%s pass=%s(%s)", hex.EncodeToString(seed), pass, pc)
		if op.EntropyFail > 0 && EntropyFault != nil {
			EntropyFault(op.EntropySkip, op.EntropyFail)
			e.Trace[len(e.Trace)-1] += fmt.Sprintf(" entropy_source_fails=%d_reads_after_%d", op.EntropyFail, op.EntropySkip)
			e.Run.Count("creates_under_entropy_fault", 1)
		}
		id, err := w.M.NewKeystore(pass, seed, op.Remark, Net(), FastScrypt)
		if op.EntropyFail > 0 && EntropyFault != nil {
			EntropyFault(0, 0)
			if err == nil {
				e.Run.Count("creates_under_entropy_fault_acknowledged", 1)
			}
		}
		res.Err, res.Ack = err, err == nil
		if err == nil {
			// acknowledged: judge whether it was allowed
			if hasKs && pc != "cur" {
				e.Report([]string{"C03"}, "create-with-non-current-passphrase-accepted", map[string]string{"pass_class": pc}, nil)
			}
			if pc == "pub" || pc == "bad" || pc == "empty" {
				e.Run.Count("observed:create-with-"+pc+"-passphrase-accepted(not judged)", 1)
			}
			if op.SeedKind == "dup" {
				e.Report([]string{"C01", "C02"}, "duplicate-seed-accepted", nil, nil)
			}
			k := &MKs{ID: id, Remark: op.Remark}
			if len(seed) == 32 {
				k.Seed = seed
				k.D, _ = Derive(seed)
			}
			if _, exists := m.Ks[id]; !exists {
				m.Ks[id] = k
				m.Order = append(m.Order, id)
			}
			if !hasKs {
				m.Priv = pass
			}
		}
	case "next":
		k := e.ks(op.K)
		id := "ac1nonexistent"
		if k != nil {
			id = k.ID
		}
		br := uint32(0)
		if op.Internal {
			br = 1
		}
		mas, err := w.M.NextAddresses(id, op.Internal, uint32(op.N))
		res.Err, res.Ack = err, err == nil
		if err == nil && k == nil {
			e.Report([]string{"C02"}, "address-generation-on-unknown-keystore-accepted", nil, nil)
		}
		if err == nil && k != nil {
			if len(mas) != op.N {
				e.Report([]string{"C02", "C06"}, "wrong-number-of-addresses", map[string]string{"branch": fmt.Sprint(br)}, map[string]interface{}{"asked": op.N, "got": len(mas)})
			}
			for j, ma := range mas {
				e.issue(k, br, ma.PubKey(), "next", j)
			}
		}
	case "genpub":
		var fdb *FaultDB
		if op.CommitFault {
			if fdb, _ = w.Store.(*FaultDB); fdb != nil {
				fdb.Arm(FaultPlan{Kind: "commit", At: 1})
			}
		}
		pk, ord, err := w.M.GenerateNewPublicKey()
		if fdb != nil {
			fdb.Disarm()
			e.Trace[len(e.Trace)-1] += fmt.Sprintf(" commit_fault_fired=%v err=%v", fdb.Fired, err)
			if fdb.Fired {
				e.Run.Count("genpub_requests_with_failed_commit", 1)
				if err == nil {
					// not judged here: what was handed out is recorded as issued, and the requests that follow decide
					// (a key returned twice, an ordinal reused or skipped, a lookup that fails after the restart)
					e.Run.Count("genpub_requests_reporting_success_despite_failed_commit", 1)
				}
			}
		}
		res.Err, res.Ack = err, err == nil
		if err == nil {
			if !hasKs {
				e.Report([]string{"C06"}, "plot-key-issued-without-keystore", nil, nil)
				break
			}
			pubHex := hex.EncodeToString(pk.SerializeCompressed())
			// owner = the keystore whose next external key this is
			var owner *MKs
			for _, id := range m.Order {
				k := m.Ks[id]
				if k.D != nil && k.D.PubHex(0, k.Next[0]) == pubHex {
					owner = k
					break
				}
			}
			if owner == nil {
				// keystore with unknown seed: identify through the wallet's own lookup
				for _, am := range w.M.GetManagedAddrManager() {
					if _, err := am.Address(AddrOf(pubHex)); err == nil {
						if k := m.Ks[am.Name()]; k != nil && k.D == nil {
							owner = k
						}
					}
				}
			}
			if owner == nil {
				e.Report([]string{"C06"}, "issued-plot-key-is-not-next-external-key-of-any-keystore", nil, map[string]interface{}{"pub": pubHex, "ordinal": ord})
				break
			}
			if ord != owner.Next[0] {
				e.Report([]string{"C06"}, "ordinal-differs-from-key-index", nil, map[string]interface{}{"pub": pubHex, "ordinal": ord, "index": owner.Next[0]})
			}
			e.issue(owner, 0, pk, "genpub", 0)
		} else if hasKs {
			res.Note = "refused"
		}
	case "remark":
		k := e.ks(op.K)
		id := "ac1nonexistent"
		if k != nil {
			id = k.ID
		}
		err := w.M.ChangeRemark(id, op.Remark)
		res.Err, res.Ack = err, err == nil
		if err == nil && k != nil {
			k.Remark = op.Remark
		}
	case "chpriv":
		old, pc := e.pass(op.PC)
		var np []byte
		npc := op.NPC
		switch op.NPC {
		case "same":
			np = old
		case "pub":
			np = append([]byte{}, m.Pub...)
		case "bad":
			np, _ = e.pass("bad")
		case "fresh40", "fresh6":
			// the longest / shortest legal passphrase
			np = FreshPass(e.Rng)
			for len(np) < 40 {
				np = append(np, passAlphabet[e.Rng.Intn(len(passAlphabet))])
			}
			if op.NPC == "fresh6" {
				np = np[:6]
			}
			npc = "fresh"
		default:
			np = FreshPass(e.Rng)
			npc = "fresh"
		}
		res.Note = pc
		e.Trace[len(e.Trace)-1] += fmt.Sprintf(" old=%s(%s) new=%s(%s)", old, pc, np, npc)
		var err error
		if f := e.front(); f != nil {
			err = f.ChPriv(old, np)
		} else {
			err = w.M.ChangePrivPassphrase(old, np, e.scryptFor(op))
		}
		res.Err, res.Ack = err, err == nil
		if err == nil {
			if npc != "fresh" {
				e.Run.Count("observed:new-private-passphrase-class-"+npc+"-accepted(not judged)", 1)
			}
			if hasKs {
				if pc != "cur" {
					e.Report([]string{"C03"}, "passphrase-change-with-non-current-passphrase-accepted", map[string]string{"pass_class": pc}, nil)
				}
				m.OldPriv = append(m.OldPriv, m.Priv)
				m.Priv = np
			}
		}
	case "chpub":
		var old []byte
		pc := op.PC
		switch op.PC {
		case "cur":
			old = append([]byte{}, m.Pub...)
		case "priv":
			old, _ = e.pass("cur")
		default:
			old = FreshPass(e.Rng)
			pc = "other"
		}
		var np []byte
		npc := op.NPC
		switch op.NPC {
		case "same":
			np = old
		case "priv":
			if m.Priv != nil {
				np = append([]byte{}, m.Priv...)
			} else {
				np = FreshPass(e.Rng)
				npc = "fresh"
			}
		case "bad":
			np, _ = e.pass("bad")
		default:
			np = FreshPass(e.Rng)
			npc = "fresh"
		}
		e.Trace[len(e.Trace)-1] += fmt.Sprintf(" old=%s(%s) new=%s(%s)", old, pc, np, npc)
		var err error
		if f := e.front(); f != nil {
			err = f.ChPub(old, np)
		} else {
			err = w.M.ChangePubPassphrase(old, np, e.scryptFor(op))
		}
		res.Err, res.Ack = err, err == nil
		if err == nil {
			if npc != "fresh" {
				// no property demands public != private or well-formedness of the new public passphrase: observed, not judged
				e.Run.Count("observed:new-public-passphrase-class-"+npc+"-accepted(not judged)", 1)
			}
			if hasKs && pc != "cur" {
				e.Report([]string{"C02"}, "public-passphrase-change-with-wrong-old-passphrase-accepted", map[string]string{"pass_class": pc}, nil)
			}
			m.OldPub = append(m.OldPub, m.Pub)
			m.Pub = np
		}
	case "delete":
		k := e.ks(op.K)
		id := "ac1nonexistent"
		if k != nil {
			id = k.ID
		}
		pass, pc := e.pass(op.PC)
		res.Note = pc
		e.Trace[len(e.Trace)-1] += fmt.Sprintf(" pass=%s(%s)", pass, pc)
		// key objects of this keystore handed out while unlocked: a deleted keystore's scalars are checked at the next
		// Lock together with those of the keystores that stay
		var doomed []*pocec.PrivateKey
		if !m.Locked && k != nil {
			for _, am := range w.M.GetManagedAddrManager() {
				if am.Name() != id {
					continue
				}
				for _, ma := range am.ManagedAddresses() {
					if pk := ma.PrivKey(); pk != nil && pk.D != nil && len(doomed) < 32 {
						doomed = append(doomed, pk)
					}
				}
			}
		}
		ok, err := w.M.DeleteKeystore(id, pass)
		res.Err, res.Ack = err, err == nil && ok
		if res.Ack {
			e.heldDeleted = append(e.heldDeleted, doomed...)
			if k == nil {
				e.Report([]string{"C02"}, "delete-of-unknown-keystore-acknowledged", nil, nil)
				break
			}
			if pc != "cur" {
				e.Report([]string{"C03"}, "delete-with-non-current-passphrase-accepted", map[string]string{"pass_class": pc}, nil)
			}
			if k.Seed != nil {
				m.Deleted = append(m.Deleted, k.Seed)
			}
			// the keystore's identity ends here: re-creating it from the same seed legitimately starts at index 0 again
			for pub, owner := range m.Issued {
				if owner == k.ID {
					delete(m.Issued, pub)
				}
			}
			m.remove(k.ID)
		}
	case "export":
		k := e.ks(op.K)
		id := "ac1nonexistent"
		if k != nil {
			id = k.ID
		}
		pass, pc := e.pass(op.PC)
		res.Note = pc
		e.Trace[len(e.Trace)-1] += fmt.Sprintf(" pass=%s(%s)", pass, pc)
		var js []byte
		var err error
		if f := e.front(); f != nil {
			js, err = f.Export(id, pass)
		} else {
			js, err = w.M.ExportKeystore(id, pass)
		}
		res.Err, res.Ack = err, err == nil
		if err == nil && k != nil {
			if pc != "cur" {
				e.Report([]string{"C03"}, "export-with-non-current-passphrase-accepted", map[string]string{"pass_class": pc}, nil)
			}
			m.Exports = append(m.Exports, &Export{ID: k.ID, JSON: js, Pass: append([]byte{}, m.Priv...), Snap: k.Snap(), Seed: k.Seed, D: k.D})
		}
	case "import":
		if len(m.Exports) == 0 {
			res.Note = "skipped"
			break
		}
		ex := m.Exports[((op.X%len(m.Exports))+len(m.Exports))%len(m.Exports)]
		var old []byte
		pc := op.PC
		switch op.PC {
		case "exp":
			old = append([]byte{}, ex.Pass...)
		case "cur":
			old, _ = e.pass("cur")
			if bytes.Equal(old, ex.Pass) {
				pc = "exp"
			}
		case "bad", "empty", "pub":
			old, pc = e.pass(op.PC)
		case "expnul":
			// the export's passphrase followed by NUL bytes: a different passphrase (see class curnul)
			old = append(append([]byte{}, ex.Pass...), make([]byte, e.Rng.Range(1, 3))...)
		default:
			old = FreshPass(e.Rng)
			pc = "other"
		}
		var np []byte
		npc := op.NPC
		switch op.NPC {
		case "cur":
			if m.Priv != nil {
				np = append([]byte{}, m.Priv...)
			} else {
				np, npc = nil, ""
			}
		case "other":
			np = FreshPass(e.Rng)
		case "pub":
			np = append([]byte{}, m.Pub...)
		default:
			np, npc = nil, ""
		}
		eff := np
		if len(np) == 0 {
			eff = old
		}
		_, dup := m.Ks[ex.ID]
		mayOK := pc == "exp" && !bytes.Equal(eff, m.Pub) && keystore.ValidatePassphrase(eff) && (!hasKs || bytes.Equal(eff, m.Priv)) && !dup
		e.Trace[len(e.Trace)-1] += fmt.Sprintf(" export_of=%s old=%s(%s) new=%s(%s) dup=%v", ex.ID, old, pc, np, npc, dup)
		var dumpBefore map[string]string
		var snapBefore Snap
		if e.Prop == "C01" {
			dumpBefore, _ = Dump(w.Raw)
			snapBefore = w.Snapshot()
		}
		var id, remark string
		var err error
		if f := e.front(); f != nil {
			id, remark, err = f.Import(ex.JSON, old, np)
		} else {
			id, remark, err = w.M.ImportKeystore(ex.JSON, old, np)
		}
		res.Err, res.Ack = err, err == nil
		if err != nil && e.Prop == "C01" {
			cls := "wrong-passphrase"
			if dup {
				cls = "already-present"
			}
			e.CheckUnchanged(w, snapBefore, dumpBefore, "rejected-import-changed-wallet", map[string]string{"reason": cls})
			e.Run.Count("rejected_imports_checked_unchanged:"+cls, 1)
		}
		if err == nil {
			if !mayOK {
				at := map[string]string{"old_class": pc, "new_class": npc, "duplicate": fmt.Sprint(dup)}
				if dup {
					e.Report([]string{"C01"}, "import-of-present-keystore-accepted", at, nil)
				} else {
					e.Report([]string{"C01", "C03"}, "import-with-wrong-passphrase-accepted", at, nil)
				}
			}
			if id != ex.ID || remark != ex.Snap.Remark {
				e.Report([]string{"C01"}, "import-returned-different-identity", nil, map[string]interface{}{"id": id, "want_id": ex.ID, "remark": remark, "want_remark": ex.Snap.Remark})
			}
			if !dup {
				k := &MKs{ID: id, Seed: ex.Seed, D: ex.D, Remark: remark}
				if id == ex.ID {
					k.Remark = ex.Snap.Remark
				}
				for _, x := range ex.Snap.Keys {
					k.Keys = append(k.Keys, MKey{Key: x, IssuedLocked: true, Src: "import"})
					if x.Index+1 > k.Next[x.Branch] {
						k.Next[x.Branch] = x.Index + 1
					}
					m.Issued[x.Pub] = id
				}
				m.Ks[id] = k
				m.Order = append(m.Order, id)
				if !hasKs {
					m.Priv = eff
				}
				e.nontrivial["import"] = true
				e.Run.Count("accepted_imports_of_absent_keystores", 1)
				// C01: the imported keystore must equal what was exported
				got := w.Snapshot().Get(id)
				want := ex.Snap
				if d := DiffKs(got, &want); d != "" {
					e.Report([]string{"C01"}, "imported-keystore-differs-from-exported", map[string]string{"diff": firstWord(d)}, map[string]interface{}{"diff": d})
				}
			}
		}
	case "import-damaged":
		// a backup file damaged in one field, restored with the right passphrase into another (scratch) wallet of the same
		// process: the restore is expected to fail; what matters is what the failure leaves in logs and files (scanned)
		if len(m.Exports) == 0 {
			res.Note = "skipped"
			break
		}
		ex := m.Exports[((op.X%len(m.Exports))+len(m.Exports))%len(m.Exports)]
		cases, terr := TamperCases(ex.JSON, e.Rng)
		var pickFrom []Tamper
		for _, c := range cases {
			if strings.HasPrefix(c.Field, "crypto.") && strings.HasPrefix(c.Mutation, "bit-flip") {
				pickFrom = append(pickFrom, c)
			}
		}
		if terr != nil || len(pickFrom) == 0 {
			res.Note = "skipped"
			break
		}
		tc := pickFrom[e.Rng.Intn(len(pickFrom))]
		od := filepath.Join(e.Dir, fmt.Sprintf("other-wallet-%d", len(e.Trace)))
		ow, oerr := Create(od, FreshPass(e.Rng), nil)
		if oerr != nil {
			res.Note = "skipped"
			break
		}
		_, _, ierr := ow.M.ImportKeystore(tc.JSON, ex.Pass, nil)
		ow.Close()
		os.RemoveAll(od)
		res.Err, res.Ack = ierr, false
		e.Trace[len(e.Trace)-1] += fmt.Sprintf(" export_of=%s field=%s mutation=%s err=%v", ex.ID, tc.Field, tc.Mutation, ierr)
		e.Run.Count("damaged_backups_restored_with_the_right_passphrase", 1)
	case "import-with-write-fault":
		// a backup restored (right passphrase) into a scratch wallet whose store fails one write of the import: the
		// import is expected to fail; the error it returns (the API logs it and hands it to the caller) and the log
		// are scanned like everything else
		if len(m.Exports) == 0 {
			res.Note = "skipped"
			break
		}
		ex := m.Exports[((op.X%len(m.Exports))+len(m.Exports))%len(m.Exports)]
		od := filepath.Join(e.Dir, fmt.Sprintf("faulty-wallet-%d", len(e.Trace)))
		var fdb *FaultDB
		ow, oerr := Create(od, FreshPass(e.Rng), func(d db.DB) db.DB { fdb = NewFaultDB(d); return fdb })
		if oerr != nil || fdb == nil {
			res.Note = "skipped"
			break
		}
		at := 1 + e.Rng.Intn(24)
		fdb.Arm(FaultPlan{Kind: "write", At: at})
		_, _, ierr := ow.M.ImportKeystore(ex.JSON, append([]byte{}, ex.Pass...), nil)
		fdb.Disarm()
		ow.Close()
		os.RemoveAll(od)
		res.Err, res.Ack = ierr, false
		e.Trace[len(e.Trace)-1] += fmt.Sprintf(" export_of=%s failed_write=%d fired=%v err=%v", ex.ID, at, fdb.Fired, ierr)
		e.Run.Count("imports_with_a_failed_store_write", 1)
		if ierr != nil {
			e.extraScan = append(e.extraScan, []byte(ierr.Error()))
		}
	case "import-into-pubpass-wallet":
		// a backup restored into an EMPTY wallet whose PUBLIC passphrase happens to be the backup's passphrase, new
		// passphrase omitted: if the wallet takes it, its private material must still not open with the public passphrase
		if len(m.Exports) == 0 {
			res.Note = "skipped"
			break
		}
		ex := m.Exports[((op.X%len(m.Exports))+len(m.Exports))%len(m.Exports)]
		od := filepath.Join(e.Dir, fmt.Sprintf("pubpass-wallet-%d", len(e.Trace)))
		ow, oerr := Create(od, append([]byte{}, ex.Pass...), nil)
		if oerr != nil {
			res.Note = "skipped"
			break
		}
		id, _, ierr := ow.M.ImportKeystore(ex.JSON, append([]byte{}, ex.Pass...), nil)
		res.Err, res.Ack = ierr, false
		e.Trace[len(e.Trace)-1] += fmt.Sprintf(" export_of=%s err=%v", ex.ID, ierr)
		e.Run.Count("imports_into_a_wallet_whose_public_passphrase_is_the_file_passphrase", 1)
		if ierr == nil {
			for _, what := range OpenedWithoutPrivate(ow.Raw, id, ex.Pass, nil) {
				e.Report([]string{"C04"}, "private-material-opens-without-private-passphrase", map[string]string{"blob": strings.SplitN(what, " opens with ", 2)[0], "key": strings.SplitN(what+" opens with ?", " opens with ", 3)[1]},
					map[string]interface{}{"what": what, "wallet": "empty wallet whose public passphrase equals the imported file's passphrase; new passphrase omitted"})
				break
			}
		}
		ow.Close()
		os.RemoveAll(od)
	case "lock":
		// key objects somebody obtained while the wallet was unlocked (the addresses NextAddresses returns carry them):
		// Lock must wipe the scalars themselves, not only drop the wallet's references to them
		held := e.heldDeleted
		e.heldDeleted = nil
		if !m.Locked {
			for _, am := range w.M.GetManagedAddrManager() {
				for _, ma := range am.ManagedAddresses() {
					if pk := ma.PrivKey(); pk != nil && pk.D != nil && len(held) < 64 {
						held = append(held, pk)
					}
				}
			}
		}
		if f := e.front(); f != nil && f.Lock() == nil {
		} else {
			w.M.Lock()
		}
		res.Ack = true
		m.Locked = true
		for _, pk := range held {
			words := pk.D.Bits()
			words = words[:cap(words)]
			left := 0
			for _, x := range words {
				if x != 0 {
					left++
				}
			}
			e.Run.Count("held_private_scalars_inspected_after_lock", 1)
			if left > 0 {
				e.Report([]string{"C03"}, "private-scalar-left-in-memory-after-lock", map[string]string{"where": "key object handed out while unlocked"}, map[string]interface{}{"non_zero_words": left, "words": len(words)})
				break
			}
		}
	case "unlock":
		pass, pc := e.pass(op.PC)
		res.Note = pc
		e.Trace[len(e.Trace)-1] += fmt.Sprintf(" pass=%s(%s)", pass, pc)
		var err error
		if f := e.front(); f != nil && m.Locked { // (the API answers "success" without looking at the passphrase when already unlocked)
			err = f.Unlock(pass)
		} else {
			err = w.M.Unlock(pass)
		}
		res.Err, res.Ack = err, err == nil
		if err == nil {
			if hasKs && pc != "cur" {
				e.Report([]string{"C03"}, "unlock-with-non-current-passphrase-accepted", map[string]string{"pass_class": pc}, nil)
			}
			m.Locked = false
		}
	case "sign":
		e.signOne(op)
		res.Ack = true
	case "restart":
		e.restart()
		res.Ack = true
	default:
		panic("unknown op " + op.Kind)
	}
	res.Op = op
	if res.Note != "" && res.Note != "cur" && res.Note != "skipped" && res.Note != "refused" {
		if res.Err != nil {
			e.nontrivial["refused"] = true
			e.Run.Count("refused:"+op.Kind+":"+res.Note, 1)
		}
	} else if res.Note == "cur" && res.Err == nil {
		e.Run.Count("accepted:"+op.Kind+":cur", 1)
	}
	if !e.M.Locked && len(e.M.Order) > 0 {
		e.nontrivial["unlocked"] = true
	}
	if len(e.M.Order) >= 2 {
		e.nontrivial["two-keystores"] = true
	}
	if res.Err != nil {
		e.Trace[len(e.Trace)-1] += " -> err: " + res.Err.Error()
	} else {
		e.Trace[len(e.Trace)-1] += " -> ok"
	}
	e.afterStep(res)
	return res
}

func firstWord(s string) string {
	if i := strings.IndexAny(s, " :"); i > 0 {
		return s[:i]
	}
	return s
}

// issue records one key the wallet just returned for branch br of keystore k and checks index, derivation and uniqueness.
func (e *Env) issue(k *MKs, br uint32, pk *pocec.PublicKey, src string, j int) {
	pubHex := hex.EncodeToString(pk.SerializeCompressed())
	idx := k.Next[br]
	tags := []string{"C02"}
	if br == 0 {
		tags = []string{"C06", "C02"}
	}
	if k.D != nil {
		if want := k.D.PubHex(br, idx); want != pubHex {
			e.Report(tags, "issued-key-is-not-the-derived-key-at-next-index", map[string]string{"branch": fmt.Sprint(br), "src": src}, map[string]interface{}{"keystore": k.ID, "index": idx, "got": pubHex, "want": want})
		}
	}
	if prev, dup := e.M.Issued[pubHex]; dup {
		e.Report(tags, "key-issued-twice", map[string]string{"branch": fmt.Sprint(br), "src": src}, map[string]interface{}{"pub": pubHex, "first_keystore": prev, "keystore": k.ID})
	}
	if ord, ok := e.W.M.GetPublicKeyOrdinal(pk); !ok || ord != idx {
		e.Report(tags, "ordinal-lookup-disagrees-with-issuance", map[string]string{"branch": fmt.Sprint(br), "src": src}, map[string]interface{}{"pub": pubHex, "ordinal": ord, "found": ok, "index": idx})
	}
	e.M.Issued[pubHex] = k.ID
	k.Keys = append(k.Keys, MKey{Key: Key{Branch: br, Index: idx, Addr: AddrOf(pubHex), Pub: pubHex}, IssuedLocked: e.M.Locked, Src: src})
	k.Next[br] = idx + 1
	if e.M.Locked {
		e.nontrivial["issued-locked"] = true
	} else {
		e.nontrivial["issued-unlocked"] = true
	}
}

// restart closes the store and reopens it with the current public passphrase; the reopened wallet must equal the running one.
func (e *Env) restart() {
	before := e.W.Snapshot()
	e.W.Close()
	w, err := Open(e.W.Dir, e.M.Pub, e.Wrap)
	if err != nil {
		e.Report([]string{"C02"}, "reopen-with-current-public-passphrase-failed", nil, map[string]interface{}{"err": err.Error()})
		// fall back so the history can go on: cannot — abort this env
		e.W = nil
		return
	}
	e.W = w
	e.M.Locked = true
	e.Restarts++
	after := w.Snapshot()
	if d := Diff(before, after); d != "" {
		e.Report([]string{"C02"}, "restart-changed-wallet-state", map[string]string{"diff": firstWord(d)}, map[string]interface{}{"diff": d})
	}
	if !after.Locked {
		e.Report([]string{"C03"}, "wallet-unlocked-after-restart", nil, nil)
	}
	e.nontrivial["restart"] = true
}

// signOne signs with one issued key (or a foreign key) and judges the result.
func (e *Env) signOne(op Op) {
	var all []MKey
	for _, id := range e.M.Order {
		all = append(all, e.M.Ks[id].Keys...)
	}
	digest := e.Rng.Bytes(32)
	if len(all) == 0 || op.N < 0 {
		// foreign key
		priv, _ := pocec.PrivKeyFromBytes(pocec.S256(), e.Rng.Bytes(32))
		pk := priv.PubKey()
		if sig, err := e.W.M.SignHash(pk, digest); err == nil && sig != nil {
			e.Report([]string{"C05"}, "signature-for-foreign-key", nil, map[string]interface{}{"pub": hex.EncodeToString(pk.SerializeCompressed())})
		}
		e.Run.Count("foreign_key_sign_refused", 1)
		return
	}
	k := all[op.N%len(all)]
	e.checkSign(k, digest, true)
}

// checkSign asks for a signature by key k over digest (and, if msg, over a message) and judges it.
func (e *Env) checkSign(k MKey, digest []byte, msg bool) {
	pk := ParsePub(k.Pub)
	sig, err := e.W.M.SignHash(pk, digest)
	ctx := map[string]string{"issued_locked": fmt.Sprint(k.IssuedLocked), "src": k.Src, "branch": fmt.Sprint(k.Branch)}
	if e.M.Locked {
		if err == nil {
			e.Report([]string{"C03", "C05"}, "signing-succeeded-while-locked", ctx, map[string]interface{}{"pub": k.Pub})
		}
		e.Run.Count("sign_refused_while_locked", 1)
		return
	}
	c05 := []string{"C05"}
	if k.Src == "import" {
		c05 = []string{"C05", "C01"}
		e.Run.Count("imported_keys_signed", 1)
	}
	if err != nil || sig == nil {
		e.Report(c05, "signing-failed-while-unlocked", ctx, map[string]interface{}{"pub": k.Pub, "err": fmt.Sprint(err)})
		return
	}
	e.Signed++
	e.Run.Count("signatures_verified", 1)
	if !sig.Verify(digest, pk) {
		e.Report(c05, "signature-does-not-verify", ctx, map[string]interface{}{"pub": k.Pub, "digest": hex.EncodeToString(digest)})
	}
	// must not verify under a different issued key
	for _, id := range e.M.Order {
		for _, o := range e.M.Ks[id].Keys {
			if o.Pub != k.Pub {
				if sig.Verify(digest, ParsePub(o.Pub)) {
					e.Report([]string{"C05"}, "signature-verifies-under-another-key", ctx, map[string]interface{}{"pub": k.Pub, "other": o.Pub})
				}
				break
			}
		}
	}
	if ok, err := e.W.M.VerifySig(sig, digest, pk); err != nil || !ok {
		e.Report([]string{"C05"}, "wallet-verifysig-rejects-own-signature", ctx, map[string]interface{}{"pub": k.Pub, "err": fmt.Sprint(err)})
	}
	if msg {
		message := e.Rng.Bytes(e.Rng.Range(0, 100))
		s2, err := e.W.M.SignMessage(pk, message)
		if err != nil || s2 == nil {
			e.Report([]string{"C05"}, "message-signing-failed-while-unlocked", ctx, map[string]interface{}{"pub": k.Pub, "err": fmt.Sprint(err)})
			return
		}
		h := wire.HashH(message)
		if !s2.Verify(h[:], pk) {
			e.Report([]string{"C05"}, "message-signature-does-not-verify", ctx, map[string]interface{}{"pub": k.Pub, "message": hex.EncodeToString(message)})
		}
		e.Run.Count("message_signatures_verified", 1)
	}
}

// CheckUnchanged compares the wallet with a snapshot and logical store dump taken before a rejected operation.
func (e *Env) CheckUnchanged(w *Wallet, snap Snap, dump map[string]string, kind string, attrs map[string]string) bool {
	ok := true
	if d := Diff(snap, w.Snapshot()); d != "" {
		e.Report([]string{"C01"}, kind, attrs, map[string]interface{}{"memory_diff": d})
		ok = false
	}
	if dump != nil {
		if after, err := Dump(w.Raw); err == nil {
			if d := DiffDump(dump, after); d != "" {
				e.Report([]string{"C01"}, kind, attrs, map[string]interface{}{"store_diff": d})
				ok = false
			}
		}
	}
	return ok
}

// ProbePass asks every keystore, through a read-only operation (export), whether it accepts pass.
func (e *Env) ProbePass(pass []byte) map[string]bool {
	out := map[string]bool{}
	for _, id := range e.M.Order {
		_, err := e.W.M.ExportKeystore(id, pass)
		out[id] = err == nil
	}
	return out
}

// governanceProbe checks "one private passphrase governs all keystores at all times": the current
// passphrase and a wrong one must each get the same answer from every keystore.
func (e *Env) governanceProbe(after string) {
	if len(e.M.Order) < 2 || e.M.Priv == nil {
		return
	}
	e.Run.Count("governance_probes", 1)
	for cls, p := range map[string][]byte{"current": e.M.Priv, "other": FreshPass(e.Rng)} {
		ans := e.ProbePass(p)
		var yes, no []string
		for id, ok := range ans {
			if ok {
				yes = append(yes, id)
			} else {
				no = append(no, id)
			}
		}
		if len(yes) > 0 && len(no) > 0 {
			e.Report([]string{"C03"}, "passphrase-governs-some-keystores-only", map[string]string{"pass_class": cls}, map[string]interface{}{"accepting": yes, "refusing": no, "after": after, "locked": e.M.Locked})
		}
		if cls == "other" && len(yes) > 0 {
			e.Report([]string{"C03"}, "export-with-non-current-passphrase-accepted", map[string]string{"pass_class": "other"}, map[string]interface{}{"accepting": yes})
		}
	}
}

// afterStep runs the per-step oracles.
func (e *Env) afterStep(res Res) {
	if e.W == nil {
		return
	}
	// running instance vs model of acknowledged operations
	got, want := e.W.Snapshot(), e.M.Snap()
	if d := Diff(got, want); d != "" {
		tags := []string{"C02"}
		if res.Op.Kind == "import" {
			tags = append(tags, "C01")
		}
		e.Report(tags, "running-wallet-differs-from-acknowledged-operations", map[string]string{"after": res.Op.Kind, "diff": firstWord(d)}, map[string]interface{}{"diff": d})
	}
	if got.Locked != e.M.Locked {
		e.Report([]string{"C03"}, "lock-state-differs-from-acknowledged-operations", map[string]string{"after": res.Op.Kind}, map[string]interface{}{"wallet_locked": got.Locked, "model_locked": e.M.Locked})
	}
	if e.Inspect {
		e.inspect(res)
		// after the inspector has looked (the probe itself derives and zeroes keys): when the current
		// passphrase was just refused, ask every keystore
		if res.Note == "cur" && res.Err != nil {
			e.governanceProbe(res.Op.Kind)
		}
	}
	if e.SignAll && !e.M.Locked {
		for _, id := range e.M.Order {
			for _, k := range e.M.Ks[id].Keys {
				e.checkSign(k, e.Rng.Bytes(32), e.Rng.Chance(1, 4))
			}
		}
	}
	if e.SignAll && e.M.Locked {
		// a couple of keys must be refused
		for _, id := range e.M.Order {
			if ks := e.M.Ks[id].Keys; len(ks) > 0 {
				e.checkSign(ks[e.Rng.Intn(len(ks))], e.Rng.Bytes(32), false)
			}
		}
	}
	if e.ScanSecrets {
		e.scan(res)
	}
}

// TrueKeys decrypts, from the store and the passphrases, the secrets of keystore id (independently of the manager's memory).
type TrueKeys struct {
	MasterPriv, MasterPub []byte // scrypt-derived key-encryption keys
	CryptoPriv, CryptoPub []byte
	RootXprv, AcctXprv    string
	PrivSalt              []byte
}

func readKs(store db.DB, id string) (map[string][]byte, error) {
	out := map[string][]byte{}
	err := db.View(store, func(tx db.ReadTransaction) error {
		km := tx.TopLevelBucket("km")
		if km == nil {
			return fmt.Errorf("no km bucket")
		}
		b := km.Bucket(id)
		if b == nil {
			return fmt.Errorf("no keystore bucket")
		}
		es, err := b.GetByPrefix([]byte{})
		if err != nil {
			return err
		}
		for _, e := range es {
			out[string(e.Key)] = append([]byte{}, e.Value...)
		}
		return nil
	})
	return out, err
}

// TrueKeysOf recovers the key hierarchy of a keystore from the store with both passphrases.
func TrueKeysOf(store db.DB, id string, pub, priv []byte) (*TrueKeys, error) {
	kv, err := readKs(store, id)
	if err != nil {
		return nil, err
	}
	t := &TrueKeys{}
	var mpub, mpriv snacl.SecretKey
	if err := mpub.Unmarshal(kv["mpub"]); err != nil {
		return nil, err
	}
	if err := mpub.DeriveKey(&pub); err != nil {
		return nil, fmt.Errorf("public passphrase: %v", err)
	}
	t.MasterPub = append([]byte{}, mpub.Key[:]...)
	if t.CryptoPub, err = mpub.Decrypt(kv["cpub"]); err != nil {
		return nil, err
	}
	if priv != nil {
		if err := mpriv.Unmarshal(kv["mpriv"]); err != nil {
			return nil, err
		}
		if err := mpriv.DeriveKey(&priv); err != nil {
			return nil, fmt.Errorf("private passphrase: %v", err)
		}
		t.MasterPriv = append([]byte{}, mpriv.Key[:]...)
		if t.CryptoPriv, err = mpriv.Decrypt(kv["cpriv"]); err != nil {
			return nil, err
		}
		var ck snacl.CryptoKey
		copy(ck[:], t.CryptoPriv)
		if x, err := ck.Decrypt(kv["mhdpriv"]); err == nil {
			t.RootXprv = string(x)
		} else {
			return nil, err
		}
	}
	return t, nil
}

// OpenedWithoutPrivate tries to open every private blob of keystore id (and of the exported file js, if given)
// WITHOUT the private passphrase: with the all-zero key, with the scrypt key of the public passphrase and with the
// public crypto key. It returns a description of everything that opened.
func OpenedWithoutPrivate(store db.DB, id string, pub []byte, js []byte) []string {
	var out []string
	kv, err := readKs(store, id)
	if err != nil {
		return nil
	}
	keys := map[string]*snacl.CryptoKey{"all-zero-key": {}}
	var mpub snacl.SecretKey
	if mpub.Unmarshal(kv["mpub"]) == nil && mpub.DeriveKey(&pub) == nil {
		k := *mpub.Key
		keys["scrypt-key-of-public-passphrase"] = &k
		if cp, err := mpub.Decrypt(kv["cpub"]); err == nil && len(cp) == 32 {
			var ck snacl.CryptoKey
			copy(ck[:], cp)
			keys["public-crypto-key"] = &ck
		}
	}
	// the private master key's parameters must not verify for a passphrase everybody knows: the empty one, the
	// public one
	trivial := map[string][]byte{"the-empty-passphrase": {}, "the-public-passphrase": append([]byte{}, pub...)}
	tryParams := func(where string, params []byte) {
		for name, cand := range trivial {
			var mp snacl.SecretKey
			c := append([]byte{}, cand...)
			if mp.Unmarshal(params) == nil && mp.DeriveKey(&c) == nil {
				out = append(out, where+"(master-key parameters) opens with "+name)
				k := *mp.Key
				keys["scrypt-key-of-"+name+"("+where+")"] = &k
			}
		}
	}
	tryParams("store:mpriv", kv["mpriv"])
	blobs := map[string][]byte{"store:cpriv": kv["cpriv"], "store:mhdpriv": kv["mhdpriv"]}
	// account row: <type><len><encpub><len><encpriv>
	for name, v := range kv {
		if len(name) == 4 && len(v) > 9 { // account number key (uint32) -> serialized account row
			raw := v
			if len(raw) > 5 {
				raw = raw[5:] // acctType + rawData length
			}
			if len(raw) > 4 {
				pl := int(uint32(raw[0]) | uint32(raw[1])<<8 | uint32(raw[2])<<16 | uint32(raw[3])<<24)
				if 4+pl+4 <= len(raw) {
					rest := raw[4+pl:]
					ql := int(uint32(rest[0]) | uint32(rest[1])<<8 | uint32(rest[2])<<16 | uint32(rest[3])<<24)
					if 4+ql <= len(rest) {
						blobs["store:account-private-key"] = rest[4 : 4+ql]
					}
				}
			}
		}
	}
	if js != nil {
		var f struct {
			Crypto struct {
				M string `json:"masterHDPrivKeyEnc"`
				C string `json:"cryptoKeyPrivEnc"`
				P string `json:"privParams"`
			} `json:"crypto"`
		}
		if json.Unmarshal(js, &f) == nil {
			if b, err := hex.DecodeString(f.Crypto.P); err == nil {
				tryParams("export:privParams", b)
			}
			if b, err := hex.DecodeString(f.Crypto.M); err == nil {
				blobs["export:masterHDPrivKeyEnc"] = b
			}
			if b, err := hex.DecodeString(f.Crypto.C); err == nil {
				blobs["export:cryptoKeyPrivEnc"] = b
			}
		}
	}
	for bn, blob := range blobs {
		if len(blob) == 0 {
			continue
		}
		for kn, k := range keys {
			if _, err := k.Decrypt(blob); err == nil {
				out = append(out, bn+" opens with "+kn)
			}
		}
	}
	sort.Strings(out)
	return out
}

// inspect applies the locked-memory invariant of C03 through the H4 inspector.
func (e *Env) inspect(res Res) {
	unlocked, views := e.W.M.VerifInspect()
	e.Run.Count("h4_inspections", 1)
	at := func(field string) map[string]string {
		return map[string]string{"field": field, "after": res.Op.Kind, "locked_before_op": fmt.Sprint(e.lockedBefore(res))}
	}
	for _, v := range views {
		if v.Unlocked != unlocked {
			e.Report([]string{"C03"}, "unlock-not-all-or-nothing", map[string]string{"after": res.Op.Kind}, map[string]interface{}{"keystore": v.Name, "keystore_unlocked": v.Unlocked, "manager_unlocked": unlocked})
		}
	}
	if unlocked {
		e.Run.Count("h4_unlocked_states", 1)
		return
	}
	e.Run.Count("h4_locked_states", 1)
	for _, v := range views {
		det := map[string]interface{}{"keystore": v.Name}
		if len(v.AddrPrivKeys) > 0 {
			e.Report([]string{"C03"}, "secret-in-memory-while-locked", at("address-private-key"), det)
		}
		if v.AcctKeyPriv || v.ExternalBranchPriv || v.InternalBranchPriv {
			e.Report([]string{"C03"}, "secret-in-memory-while-locked", at("account-or-branch-private-key"), det)
		}
		if v.MasterKeyPrivValid {
			e.Report([]string{"C03"}, "secret-in-memory-while-locked", at("valid-key-decrypting-key"), det)
		}
		if e.M.Priv != nil {
			if tk, err := TrueKeysOf(e.W.Raw, v.Name, e.M.Pub, e.M.Priv); err == nil {
				if bytes.Equal(v.CryptoKeyPriv, tk.CryptoPriv) {
					e.Report([]string{"C03"}, "secret-in-memory-while-locked", at("private-crypto-key"), det)
				}
				if bytes.Equal(v.MasterKeyPriv[:], tk.MasterPriv) && !v.MasterKeyPrivValid {
					e.Report([]string{"C03"}, "secret-in-memory-while-locked", at("key-decrypting-key-bytes"), det)
				}
				e.Run.Count("h4_true_key_comparisons", 1)
			} else {
				e.Run.Count("h4_true_key_unavailable", 1)
			}
			salted := append(append([]byte{}, v.PrivPassphraseSalt[:]...), e.M.Priv...)
			if sha512.Sum512(salted) == v.HashedPrivPassphrase {
				e.Report([]string{"C03"}, "secret-in-memory-while-locked", at("passphrase-hash"), det)
			}
		}
	}
}

func (e *Env) lockedBefore(res Res) bool {
	// lock state before the op: the model only flips on lock/unlock/restart
	switch res.Op.Kind {
	case "lock":
		return false // irrelevant
	case "unlock":
		return true
	}
	return e.M.Locked
}

// Secrets lists every secret of the wallet in the encodings the code could plausibly emit.
func (e *Env) Secrets() map[string][]byte {
	out := map[string][]byte{}
	add := func(name string, b []byte) {
		if len(b) >= 6 {
			out[name] = b
		}
	}
	addAll := func(name string, raw []byte) {
		if len(raw) < 6 {
			return
		}
		add(name+":raw", raw)
		add(name+":hex", []byte(hex.EncodeToString(raw)))
		add(name+":HEX", []byte(strings.ToUpper(hex.EncodeToString(raw))))
		add(name+":b64", []byte(b64(raw)))
		// what fmt's %v / %d make of a byte slice or array ("[12 0 255 ...]"), and hex bytes separated by blanks ("% x")
		dec, hx := make([]string, len(raw)), make([]string, len(raw))
		for i, c := range raw {
			dec[i], hx[i] = strconv.Itoa(int(c)), hex.EncodeToString([]byte{c})
		}
		add(name+":go-byte-list", []byte(strings.Join(dec, " ")))
		add(name+":hex-spaced", []byte(strings.Join(hx, " ")))
	}
	m := e.M
	addAll("public-passphrase", m.Pub)
	if m.Priv != nil {
		addAll("private-passphrase", m.Priv)
	}
	for i, p := range m.OldPriv {
		if i >= len(m.OldPriv)-2 {
			addAll(fmt.Sprintf("old-private-passphrase-%d", i), p)
		}
	}
	for _, id := range m.Order {
		k := m.Ks[id]
		if k.Seed != nil {
			addAll("seed:"+id, k.Seed)
		}
		if k.D != nil {
			for name, x := range map[string]interface {
				String() string
				PrivKey() ([]byte, error)
			}{"root": k.D.Root, "purpose": k.D.Purpose, "coin": k.D.Coin, "account": k.D.Acct, "branch0": k.D.Branch[0], "branch1": k.D.Branch[1]} {
				add("xprv-"+name+":"+id, []byte(x.String()))
				add("xprv-"+name+":hex-of-text:"+id, []byte(hex.EncodeToString([]byte(x.String()))))
				if b, err := x.PrivKey(); err == nil {
					pad := make([]byte, 32)
					copy(pad[32-len(b):], b)
					addAll("scalar-"+name+":"+id, pad)
				}
			}
			for j, key := range k.Keys {
				if j >= 6 {
					break
				}
				if c, err := k.D.Child(key.Branch, key.Index); err == nil {
					add(fmt.Sprintf("xprv-child-%d-%d:%s", key.Branch, key.Index, id), []byte(c.String()))
					if b, err := c.PrivKey(); err == nil {
						pad := make([]byte, 32)
						copy(pad[32-len(b):], b)
						addAll(fmt.Sprintf("scalar-child-%d-%d:%s", key.Branch, key.Index, id), pad)
					}
				}
			}
		}
		if tk, err := TrueKeysOf(e.W.Raw, id, m.Pub, m.Priv); err == nil {
			addAll("crypto-key-private:"+id, tk.CryptoPriv)
			addAll("crypto-key-public:"+id, tk.CryptoPub)
			addAll("scrypt-master-key-private:"+id, tk.MasterPriv)
			addAll("scrypt-master-key-public:"+id, tk.MasterPub)
			if tk.RootXprv != "" {
				add("xprv-root-from-store:"+id, []byte(tk.RootXprv))
				add("xprv-root-from-store:hex-of-text:"+id, []byte(hex.EncodeToString([]byte(tk.RootXprv))))
			}
		}
	}
	return out
}

func b64(b []byte) string {
	const tbl = "ABCDEFGHIJKLMNOPQRSTUVWXYZabcdefghijklmnopqrstuvwxyz0123456789+/"
	var sb strings.Builder
	for i := 0; i+3 <= len(b); i += 3 { // only whole groups: a prefix match is enough for a scanner
		v := uint(b[i])<<16 | uint(b[i+1])<<8 | uint(b[i+2])
		sb.WriteByte(tbl[v>>18&63])
		sb.WriteByte(tbl[v>>12&63])
		sb.WriteByte(tbl[v>>6&63])
		sb.WriteByte(tbl[v&63])
	}
	return sb.String()
}

// scan looks for every secret in the store files, the exports and the log files.
func (e *Env) scan(res Res) {
	secrets := e.Secrets()
	files, _ := ReadAllFiles(e.W.Dir)
	if e.LogDir != "" {
		// log files are shared by all histories of the run and only grow: read what is new since this
		// history's last scan (with an overlap so that a needle spanning the boundary is still found)
		if e.logSeen == nil {
			e.logSeen = map[string]int64{}
		}
		filepath.Walk(e.LogDir, func(p string, info os.FileInfo, err error) error {
			if err != nil || !info.Mode().IsRegular() {
				return nil
			}
			from := e.logSeen[p] - 512
			if from < 0 {
				from = 0
			}
			if f, err := os.Open(p); err == nil {
				defer f.Close()
				buf := make([]byte, info.Size()-from)
				n, _ := f.ReadAt(buf, from)
				files[p] = buf[:n]
				e.logSeen[p] = from + int64(n)
			}
			return nil
		})
	}
	for i, ex := range e.M.Exports {
		files[fmt.Sprintf("export#%d(%s)", i, ex.ID)] = ex.JSON
	}
	for p, b := range ReadExtra(e.Dir) {
		files[p] = b
	}
	for i, b := range e.extraScan {
		files[filepath.Join(e.LogDir, fmt.Sprintf("error-returned-to-caller#%d", i))] = b
	}
	e.extraScan = nil
	var total int
	for fname, content := range files {
		total += len(content)
		for sname, needle := range secrets {
			if bytes.Contains(content, needle) {
				where := "store"
				switch {
				case strings.HasPrefix(fname, "export#"):
					where = "export"
				case e.LogDir != "" && strings.HasPrefix(fname, e.LogDir):
					where = "log"
				case strings.Contains(fname, "api-export"):
					where = "api-export-file"
				}
				e.Report([]string{"C04"}, "secret-in-clear", map[string]string{"secret": strings.SplitN(sname, ":", 2)[0], "encoding": encOf(sname), "where": where}, map[string]interface{}{"file": fname, "secret": sname, "after": res.Op.Kind})
			}
		}
	}
	// "private key material can be recovered only with the private passphrase": try without it
	for _, id := range e.M.Order {
		var js []byte
		for i := len(e.M.Exports) - 1; i >= 0; i-- {
			if e.M.Exports[i].ID == id {
				js = e.M.Exports[i].JSON
				break
			}
		}
		for _, what := range OpenedWithoutPrivate(e.W.Raw, id, e.M.Pub, js) {
			parts := strings.SplitN(what, " opens with ", 2)
			e.Report([]string{"C04"}, "private-material-opens-without-private-passphrase", map[string]string{"blob": parts[0], "key": parts[1]}, map[string]interface{}{"keystore": id, "after": res.Op.Kind})
		}
		e.Run.Count("recover_without_private_passphrase_attempts", 1)
	}
	e.Run.Count("scans", 1)
	e.Run.Count("scan_needles", int64(len(secrets)))
	e.Run.Count("scan_bytes", int64(total))
}

func encOf(sname string) string {
	if i := strings.LastIndex(sname, ":"); i >= 0 {
		tail := sname[i+1:]
		switch tail {
		case "raw", "hex", "HEX", "b64":
			return tail
		}
	}
	return "text"
}

// ReadExtra reads files the API wrote next to the store (e.g. exported keystore files).
func ReadExtra(dir string) map[string][]byte {
	out := map[string][]byte{}
	m, _ := ReadAllFiles(filepath.Join(dir, "api-export"))
	for p, b := range m {
		out[p] = b
	}
	return out
}

// Nontrivial reports which interesting situations the history reached.
func (e *Env) Nontrivial() map[string]bool { return e.nontrivial }

// HistoryHash identifies the history (operation list without the random material).
func (e *Env) HistoryHash() uint64 {
	return vh.HashS(e.Trace...)
}

var _ = sha256.Sum256

func (e *Env) governanceProbeEnd() { e.governanceProbe("end-of-history") }
