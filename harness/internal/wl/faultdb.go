package wl

import (
	"errors"
	"sync"

	"massnet.org/mass/poc/wallet/db"
)

// Fault-injecting db.DB around the real store. Writes (Put, Delete, Clear, NewBucket, DeleteBucket,
// CreateTopLevelBucket, DeleteTopLevelBucket) and commits are counted from the moment Arm is called.

var ErrInjected = errors.New("injected storage failure")

// CrashSentinel is panicked to emulate process death inside Commit.
type CrashSentinel struct{ After bool }

type FaultPlan struct {
	Kind string // "" (count only) | write | commit | crash-before | crash-after | crash-write
	At   int    // 1-based index of the write / commit to hit
}

type FaultDB struct {
	inner   db.DB
	mu      sync.Mutex
	armed   bool
	plan    FaultPlan
	Writes  int
	Commits int
	Fired   bool
	Log     []string
}

func NewFaultDB(inner db.DB) *FaultDB { return &FaultDB{inner: inner} }

func (f *FaultDB) Arm(p FaultPlan) {
	f.mu.Lock()
	f.armed, f.plan, f.Writes, f.Commits, f.Fired, f.Log = true, p, 0, 0, false, nil
	f.mu.Unlock()
}

func (f *FaultDB) Disarm() {
	f.mu.Lock()
	f.armed = false
	f.mu.Unlock()
}

// write is called before every mutating bucket call; it returns an error if this write must fail.
func (f *FaultDB) write(what string) error {
	f.mu.Lock()
	defer f.mu.Unlock()
	if !f.armed {
		return nil
	}
	f.Writes++
	f.Log = append(f.Log, what)
	if f.plan.Kind == "write" && f.Writes == f.plan.At {
		f.Fired = true
		return ErrInjected
	}
	if f.plan.Kind == "crash-write" && f.Writes == f.plan.At {
		// the process dies inside the operation, before this write and before any commit: a panic unwinds through
		// the wallet code (running its deferred functions, as a real panic would) and is caught by the harness
		f.Fired = true
		f.mu.Unlock()
		defer f.mu.Lock()
		panic(CrashSentinel{After: false})
	}
	return nil
}

func (f *FaultDB) Close() error { return f.inner.Close() }

func (f *FaultDB) BeginReadTx() (db.ReadTransaction, error) { return f.inner.BeginReadTx() }

func (f *FaultDB) BeginTx() (db.DBTransaction, error) {
	tx, err := f.inner.BeginTx()
	if err != nil {
		return nil, err
	}
	return &faultTx{f: f, tx: tx}, nil
}

type faultTx struct {
	f  *FaultDB
	tx db.DBTransaction
}

func (t *faultTx) Commit() error {
	f := t.f
	f.mu.Lock()
	armed := f.armed
	var hit string
	if armed {
		f.Commits++
		f.Log = append(f.Log, "commit")
		if f.Commits == f.plan.At {
			switch f.plan.Kind {
			case "commit", "crash-before", "crash-after":
				hit = f.plan.Kind
				f.Fired = true
			}
		}
	}
	f.mu.Unlock()
	switch hit {
	case "commit":
		t.tx.Rollback()
		return ErrInjected
	case "crash-before":
		t.tx.Rollback()
		panic(CrashSentinel{After: false})
	case "crash-after":
		if err := t.tx.Commit(); err != nil {
			return err
		}
		panic(CrashSentinel{After: true})
	}
	return t.tx.Commit()
}

func (t *faultTx) Rollback() error                { return t.tx.Rollback() }
func (t *faultTx) BucketNames() ([]string, error) { return t.tx.BucketNames() }
func (t *faultTx) TopLevelBucket(name string) db.Bucket {
	return wrapBucket(t.f, t.tx.TopLevelBucket(name))
}
func (t *faultTx) FetchBucket(meta db.BucketMeta) db.Bucket {
	return wrapBucket(t.f, t.tx.FetchBucket(meta))
}
func (t *faultTx) CreateTopLevelBucket(name string) (db.Bucket, error) {
	if err := t.f.write("CreateTopLevelBucket " + name); err != nil {
		return nil, err
	}
	b, err := t.tx.CreateTopLevelBucket(name)
	return wrapBucket(t.f, b), err
}
func (t *faultTx) DeleteTopLevelBucket(name string) error {
	if err := t.f.write("DeleteTopLevelBucket " + name); err != nil {
		return err
	}
	return t.tx.DeleteTopLevelBucket(name)
}

type innerBucket = db.Bucket

type faultBucket struct {
	innerBucket
	f *FaultDB
}

func wrapBucket(f *FaultDB, b db.Bucket) db.Bucket {
	if b == nil {
		return nil
	}
	return &faultBucket{innerBucket: b, f: f}
}

func (b *faultBucket) NewBucket(name string) (db.Bucket, error) {
	if err := b.f.write("NewBucket " + name); err != nil {
		return nil, err
	}
	nb, err := b.innerBucket.NewBucket(name)
	return wrapBucket(b.f, nb), err
}
func (b *faultBucket) Bucket(name string) db.Bucket {
	return wrapBucket(b.f, b.innerBucket.Bucket(name))
}
func (b *faultBucket) DeleteBucket(name string) error {
	if err := b.f.write("DeleteBucket " + name); err != nil {
		return err
	}
	return b.innerBucket.DeleteBucket(name)
}
func (b *faultBucket) Put(key, value []byte) error {
	if err := b.f.write("Put " + string(key)); err != nil {
		return err
	}
	return b.innerBucket.Put(key, value)
}
func (b *faultBucket) Delete(key []byte) error {
	if err := b.f.write("Delete " + string(key)); err != nil {
		return err
	}
	return b.innerBucket.Delete(key)
}
func (b *faultBucket) Clear() error {
	if err := b.f.write("Clear"); err != nil {
		return err
	}
	return b.innerBucket.Clear()
}
