package wl

import "verif/harness/internal/vh"

// Weights of the operation kinds for the history generator.
type Weights map[string]int

var DefaultWeights = Weights{
	"create": 5, "next": 10, "genpub": 8, "remark": 4, "chpriv": 4, "chpub": 2, "delete": 2,
	"export": 4, "import": 4, "lock": 5, "unlock": 7, "sign": 6, "restart": 4,
}

var opKinds = []string{"create", "next", "genpub", "remark", "chpriv", "chpub", "delete", "export", "import", "lock", "unlock", "sign", "restart"}

func passClass(r *vh.Rng, hostile int) string {
	// hostile = percentage of non-current passphrase arguments
	if r.Intn(100) >= hostile {
		return "cur"
	}
	return r.PickS("prev", "prev", "pub", "other", "other", "bad", "empty", "cur1", "curnul", "curlong")
}

// GenOps pre-generates an abstract history (selectors are resolved against the model at run time).
func GenOps(r *vh.Rng, n int, w Weights, hostile int) []Op {
	ws := make([]int, len(opKinds))
	for i, k := range opKinds {
		ws[i] = w[k]
	}
	ops := []Op{{Kind: "create", PC: "cur", SeedKind: "fresh", Remark: RandRemark(r)}}
	for len(ops) < n {
		kind := opKinds[r.Weighted(ws...)]
		op := Op{Kind: kind, K: r.Intn(6)}
		switch kind {
		case "create":
			op.PC = passClass(r, hostile)
			op.SeedKind = r.PickS("fresh", "fresh", "fresh", "fresh", "dup", "short", "empty", "revive", "revive")
			op.Remark = RandRemark(r)
		case "next":
			op.N = r.Range(1, 5)
			op.Internal = r.Bool()
		case "remark":
			op.Remark = RandRemark(r)
		case "chpriv":
			op.PC = passClass(r, hostile)
			op.NPC = r.PickS("fresh", "fresh", "fresh", "fresh", "same", "pub", "bad")
		case "chpub":
			op.PC = r.PickS("cur", "cur", "cur", "priv", "other")
			op.NPC = r.PickS("fresh", "fresh", "fresh", "same", "priv", "bad")
		case "delete", "export", "unlock":
			op.PC = passClass(r, hostile)
		case "import":
			op.X = r.Intn(8)
			op.PC = r.PickS("exp", "exp", "exp", "exp", "cur", "other", "bad", "empty", "pub", "expnul")
			op.NPC = r.PickS("", "", "cur", "cur", "other", "pub")
		case "sign":
			op.N = r.Intn(64)
			if r.Chance(1, 8) {
				op.N = -1
			}
		}
		ops = append(ops, op)
	}
	return ops
}
