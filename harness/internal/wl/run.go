package wl

import (
	"fmt"
	"os"
	"path/filepath"

	"verif/harness/internal/vh"
)

// HistOpts configures a batch of seeded wallet histories for one property.
type HistOpts struct {
	Prop               string
	N                  int // histories
	MinSteps, MaxSteps int
	Hostile            int // % of non-current passphrase arguments
	W                  Weights
	Inspect            bool
	SignAll            bool
	Scan               bool
	EarlyUnlock        int // % of histories with an unlock(cur) inserted in the first third
	Nontrivial         func(e *Env) bool
	Mutate             func(r *vh.Rng, ops []Op) []Op
	Before             func(e *Env)         // after the wallet exists, before the first op
	After              func(e *Env)         // after the last op, wallet still open
	Step               func(e *Env, r Res)  // after every op
	Label              string
	Base               int // case index offset
}

// RunHistories executes the histories in parallel, one scratch directory each.
func RunHistories(run *vh.Run, o HistOpts) {
	root := run.Rng()
	label := o.Label
	if label == "" {
		label = "hist"
	}
	vh.Parallel(o.N, 16, func(i int) {
		ci := o.Base + i
		if !run.Want(ci) {
			return
		}
		rng := root.Derive(label, i)
		dir := filepath.Join(run.Scratch, fmt.Sprintf("%s-%d", label, i))
		os.MkdirAll(dir, 0o755)
		defer os.RemoveAll(dir)
		env, err := NewEnv(run, o.Prop, ci, rng, dir)
		if err != nil {
			run.Drop("cannot create wallet")
			return
		}
		env.Inspect, env.SignAll, env.ScanSecrets = o.Inspect, o.SignAll, o.Scan
		ops := GenOps(rng, rng.Range(o.MinSteps, o.MaxSteps), o.W, o.Hostile)
		if o.EarlyUnlock > 0 && rng.Intn(100) < o.EarlyUnlock {
			pos := 1 + rng.Intn(len(ops)/3+1)
			ops = append(ops[:pos], append([]Op{{Kind: "unlock", PC: "cur"}}, ops[pos:]...)...)
		}
		if o.Mutate != nil {
			ops = o.Mutate(rng, ops)
		}
		if o.Before != nil {
			o.Before(env)
		}
		for _, op := range ops {
			if env.W == nil {
				break
			}
			res := env.Do(op)
			run.Count("steps", 1)
			run.Count("op:"+op.Kind, 1)
			if o.Step != nil && env.W != nil {
				o.Step(env, res)
			}
		}
		if o.Inspect && env.W != nil {
			env.governanceProbeEnd()
		}
		if o.After != nil && env.W != nil {
			o.After(env)
		}
		env.Close()
		nt := true
		if o.Nontrivial != nil {
			nt = o.Nontrivial(env)
		}
		run.Case(env.HistoryHash(), nt)
		if i < 2 {
			run.Sample(env.Trace)
		}
	})
}
