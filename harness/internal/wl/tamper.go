package wl

import (
	"bytes"
	"encoding/json"
	"fmt"
	"sort"
	"strings"

	"verif/harness/internal/vh"
)

// Tamper is one single-field corruption of an exported keystore file.
type Tamper struct {
	Field    string // JSON path, e.g. crypto.privParams
	Mutation string
	JSON     []byte
}

func decodeObj(js []byte) (map[string]interface{}, error) {
	dec := json.NewDecoder(bytes.NewReader(js))
	dec.UseNumber()
	var m map[string]interface{}
	err := dec.Decode(&m)
	return m, err
}

func deepCopy(v interface{}) interface{} {
	switch x := v.(type) {
	case map[string]interface{}:
		o := map[string]interface{}{}
		for k, e := range x {
			o[k] = deepCopy(e)
		}
		return o
	case []interface{}:
		o := make([]interface{}, len(x))
		for i, e := range x {
			o[i] = deepCopy(e)
		}
		return o
	}
	return v
}

func flipHexChar(s string, pos int) string {
	b := []byte(s)
	c := b[pos]
	var n byte
	switch {
	case c >= '0' && c <= '9':
		n = c - '0'
	case c >= 'a' && c <= 'f':
		n = c - 'a' + 10
	default:
		b[pos] = '0'
		return string(b)
	}
	n ^= 1 << uint(pos%4)
	b[pos] = "0123456789abcdef"[n]
	return string(b)
}

// TamperCases enumerates single-field corruptions of every JSON leaf of an exported keystore.
// Every mutation changes the decoded value of exactly one leaf (or removes it / changes its type).
func TamperCases(js []byte, r *vh.Rng) ([]Tamper, error) {
	root, err := decodeObj(js)
	if err != nil {
		return nil, err
	}
	type leaf struct {
		path []string
		val  interface{}
	}
	var leaves []leaf
	var walk func(p []string, v interface{})
	walk = func(p []string, v interface{}) {
		if m, ok := v.(map[string]interface{}); ok {
			keys := make([]string, 0, len(m))
			for k := range m {
				keys = append(keys, k)
			}
			sort.Strings(keys)
			for _, k := range keys {
				walk(append(append([]string{}, p...), k), m[k])
			}
			return
		}
		leaves = append(leaves, leaf{p, v})
	}
	walk(nil, root)
	var out []Tamper
	emit := func(l leaf, mutation string, nv interface{}, remove bool) {
		c := deepCopy(root).(map[string]interface{})
		cur := c
		for _, k := range l.path[:len(l.path)-1] {
			cur = cur[k].(map[string]interface{})
		}
		if remove {
			delete(cur, l.path[len(l.path)-1])
		} else {
			cur[l.path[len(l.path)-1]] = nv
		}
		b, err := json.Marshal(c)
		if err != nil {
			return
		}
		out = append(out, Tamper{Field: strings.Join(l.path, "."), Mutation: mutation, JSON: b})
	}
	for _, l := range leaves {
		switch v := l.val.(type) {
		case string:
			isHex := len(v) >= 8 && len(v)%2 == 0 && strings.Trim(v, "0123456789abcdef") == ""
			if isHex {
				// flips at the start, in the middle, at the end and at two random places
				ps := []int{0, 1, len(v) / 2, len(v) - 1, r.Intn(len(v)), r.Intn(len(v))}
				seen := map[int]bool{}
				for _, p := range ps {
					if seen[p] {
						continue
					}
					seen[p] = true
					emit(l, fmt.Sprintf("bit-flip@%d", p), flipHexChar(v, p), false)
				}
				if strings.HasSuffix(l.path[len(l.path)-1], "Params") && len(v) == 176 {
					// scrypt parameters: salt(32) digest(32) N R P (8 bytes each, little endian): degenerate cost values
					set := func(off int, val byte) string {
						b := []byte(v)
						copy(b[off:off+16], "0000000000000000")
						copy(b[off:off+2], fmt.Sprintf("%02x", val))
						return string(b)
					}
					emit(l, "cost:N=0", set(128, 0), false)
					emit(l, "cost:N=1", set(128, 1), false)
					emit(l, "cost:N=3", set(128, 3), false)
					emit(l, "cost:R=0", set(144, 0), false)
					emit(l, "cost:P=0", set(160, 0), false)
				}
				emit(l, "truncate-1-byte", v[:len(v)-2], false)
				emit(l, "drop-first-byte", v[2:], false)
				emit(l, "extend-1-byte", v+"00", false)
				emit(l, "odd-length", v[:len(v)-1], false)
				emit(l, "non-hex-char", "zz"+v[2:], false)
				// the whole original value followed by something that is not hex (a decoder that hands back what it
				// decoded before the error would still see the original bytes)
				emit(l, "append-non-hex", v+"zz", false)
				emit(l, "append-stray-nibble", v+"0", false)
				emit(l, "empty", "", false)
			} else {
				emit(l, "substitute", v+"X", false)
				emit(l, "empty-or-changed", map[bool]string{true: "x", false: ""}[v == ""], false)
			}
			emit(l, "wrong-type-number", json.Number("7"), false)
			if v != "" { // null / absent decode to the zero value: only a corruption if the value was not zero
				emit(l, "null", nil, false)
				emit(l, "removed", nil, true)
			}
		case json.Number:
			n, _ := v.Int64()
			emit(l, "plus-1", json.Number(fmt.Sprint(n+1)), false)
			if n > 0 {
				emit(l, "minus-1", json.Number(fmt.Sprint(n-1)), false)
			}
			emit(l, "negative", json.Number("-1"), false)
			emit(l, "other-value", json.Number(fmt.Sprint(n+3)), false)
			emit(l, "wrong-type-string", fmt.Sprint(n), false)
			if n != 0 {
				emit(l, "null", nil, false)
				emit(l, "removed", nil, true)
			}
		}
	}
	// whole-file corruptions
	out = append(out, Tamper{Field: "<file>", Mutation: "truncated", JSON: js[:len(js)*2/3]})
	out = append(out, Tamper{Field: "<file>", Mutation: "empty", JSON: []byte{}})
	out = append(out, Tamper{Field: "<file>", Mutation: "not-json", JSON: []byte("keystore")})
	return out, nil
}
