// Package wl is the shared wallet harness: real wallet instances over the real
// leveldb store, observable snapshots through the public API, a logical store
// dump, independent key derivation, an abstract model of acknowledged
// operations, and a seeded history engine whose anomalies are tagged with the
// property they refute.
package wl

import (
	"bytes"
	"encoding/hex"
	"errors"
	"fmt"
	"os"
	"path/filepath"
	"sort"
	"strings"
	"sync"

	"github.com/massnetorg/mass-core/logging"
	"github.com/massnetorg/mass-core/massutil"
	"github.com/massnetorg/mass-core/pocec"
	"massnet.org/mass/config"
	nodewallet "massnet.org/mass/poc/wallet"
	"massnet.org/mass/poc/wallet/db"
	_ "massnet.org/mass/poc/wallet/db/ldb"
	"massnet.org/mass/poc/wallet/keystore"
	"massnet.org/mass/poc/wallet/keystore/hdkeychain"
)

const H = uint32(0x80000000)

// FastScrypt is used for every keystore the harness creates (production: N=262144).
var FastScrypt = &keystore.ScryptOptions{N: 16, R: 8, P: 1}

var setupOnce sync.Once

// Setup lowers the scrypt cost used by import (a package variable) and routes node logging into logDir.
func Setup(logDir, level string) {
	setupOnce.Do(func() {
		keystore.DefaultScryptOptions = *FastScrypt
		os.MkdirAll(logDir, 0o755)
		logging.Init(logDir, "node", level, 1, true)
	})
}

func Net() *config.Params { return config.ChainParams }

// Wallet is one running wallet instance over a leveldb store directory.
type Wallet struct {
	Dir   string
	Raw   db.DB // the real store
	Store db.DB // what the manager was given (Raw or a wrapper)
	M     *keystore.KeystoreManagerForPoC
}

// Wrap lets a driver interpose on the store (fault injection); nil = none.
type Wrap func(db.DB) db.DB

func open(dir string, create bool, pub []byte, wrap Wrap) (*Wallet, error) {
	var raw db.DB
	var err error
	if create {
		raw, err = db.CreateDB("leveldb", dir)
	} else {
		raw, err = db.OpenDB("leveldb", dir)
	}
	if err != nil {
		return nil, err
	}
	st := raw
	if wrap != nil {
		st = wrap(raw)
	}
	m, err := keystore.NewKeystoreManagerForPoC(st, pub, Net())
	if err != nil {
		raw.Close()
		return nil, err
	}
	return &Wallet{Dir: dir, Raw: raw, Store: st, M: m}, nil
}

func Create(dir string, pub []byte, wrap Wrap) (*Wallet, error) { return open(dir, true, pub, wrap) }
func Open(dir string, pub []byte, wrap Wrap) (*Wallet, error)   { return open(dir, false, pub, wrap) }
func (w *Wallet) Close() error                                   { return w.Raw.Close() }

// Key is one issued key as the public API shows it.
type Key struct {
	Branch uint32 `json:"b"`
	Index  uint32 `json:"i"`
	Addr   string `json:"addr"`
	Pub    string `json:"pub"`
}

type KsSnap struct {
	ID     string `json:"id"`
	Remark string `json:"remark"`
	Keys   []Key  `json:"keys"`
}

// Snap is the observable wallet state (walletsnap).
type Snap struct {
	Locked bool     `json:"locked"`
	Ks     []KsSnap `json:"ks"`
}

// Snapshot reads the observable state through the public API only.
func (w *Wallet) Snapshot() Snap {
	s := Snap{Locked: w.M.IsLocked()}
	for _, am := range w.M.GetManagedAddrManager() {
		k := KsSnap{ID: am.Name(), Remark: am.Remarks()}
		for _, ma := range am.ManagedAddresses() {
			pk := ma.PubKey()
			idx, ok := w.M.GetPublicKeyOrdinal(pk)
			if !ok {
				idx = 0xffffffff
			}
			br := uint32(0)
			if ma.IsChangeAddr() {
				br = 1
			}
			k.Keys = append(k.Keys, Key{Branch: br, Index: idx, Addr: ma.String(), Pub: hex.EncodeToString(pk.SerializeCompressed())})
		}
		sort.Slice(k.Keys, func(i, j int) bool {
			if k.Keys[i].Branch != k.Keys[j].Branch {
				return k.Keys[i].Branch < k.Keys[j].Branch
			}
			if k.Keys[i].Index != k.Keys[j].Index {
				return k.Keys[i].Index < k.Keys[j].Index
			}
			return k.Keys[i].Pub < k.Keys[j].Pub
		})
		s.Ks = append(s.Ks, k)
	}
	sort.Slice(s.Ks, func(i, j int) bool { return s.Ks[i].ID < s.Ks[j].ID })
	return s
}

func (k KsSnap) Find(id string) *KsSnap { return nil }

// Get returns the snapshot of one keystore.
func (s Snap) Get(id string) *KsSnap {
	for i := range s.Ks {
		if s.Ks[i].ID == id {
			return &s.Ks[i]
		}
	}
	return nil
}

// DiffKs describes the first difference between two keystore snapshots ("" if equal).
func DiffKs(a, b *KsSnap) string {
	if a == nil || b == nil {
		if a == nil && b == nil {
			return ""
		}
		return "keystore present on one side only"
	}
	if a.ID != b.ID {
		return fmt.Sprintf("id %s vs %s", a.ID, b.ID)
	}
	if a.Remark != b.Remark {
		return fmt.Sprintf("remark %q vs %q", a.Remark, b.Remark)
	}
	if len(a.Keys) != len(b.Keys) {
		return fmt.Sprintf("%d keys vs %d keys", len(a.Keys), len(b.Keys))
	}
	for i := range a.Keys {
		if a.Keys[i] != b.Keys[i] {
			return fmt.Sprintf("key %d: %+v vs %+v", i, a.Keys[i], b.Keys[i])
		}
	}
	return ""
}

// Diff describes the first difference between two snapshots, ignoring the lock flag ("" if equal).
func Diff(a, b Snap) string {
	if len(a.Ks) != len(b.Ks) {
		ids := func(s Snap) string {
			var x []string
			for _, k := range s.Ks {
				x = append(x, k.ID)
			}
			return strings.Join(x, ",")
		}
		return fmt.Sprintf("keystores [%s] vs [%s]", ids(a), ids(b))
	}
	for i := range a.Ks {
		if d := DiffKs(&a.Ks[i], &b.Ks[i]); d != "" {
			return d
		}
	}
	return ""
}

// Dump is a logical dump of every bucket, key and value reachable through the db interface.
func Dump(store db.DB) (map[string]string, error) {
	out := map[string]string{}
	err := db.View(store, func(tx db.ReadTransaction) error {
		names, err := tx.BucketNames()
		if err != nil {
			return err
		}
		for _, n := range names {
			b := tx.TopLevelBucket(n)
			if b == nil {
				out["!missing:"+n] = ""
				continue
			}
			if err := dumpBucket(b, "/"+n, out, 0); err != nil {
				return err
			}
		}
		return nil
	})
	return out, err
}

func dumpBucket(b db.Bucket, path string, out map[string]string, depth int) error {
	out[path+"/"] = "<bucket>"
	es, err := b.GetByPrefix([]byte{})
	if err != nil {
		return err
	}
	for _, e := range es {
		out[path+"#"+hex.EncodeToString(e.Key)] = hex.EncodeToString(e.Value)
	}
	names, err := b.BucketNames()
	if err != nil {
		return err
	}
	if depth > 8 {
		return nil
	}
	for _, n := range names {
		sb := b.Bucket(n)
		if sb == nil {
			out[path+"/!missing:"+n] = ""
			continue
		}
		if err := dumpBucket(sb, path+"/"+n, out, depth+1); err != nil {
			return err
		}
	}
	return nil
}

// DiffDump describes the first difference between two dumps ("" if equal).
func DiffDump(a, b map[string]string) string {
	var keys []string
	for k := range a {
		keys = append(keys, k)
	}
	for k := range b {
		if _, ok := a[k]; !ok {
			keys = append(keys, k)
		}
	}
	sort.Strings(keys)
	for _, k := range keys {
		va, oa := a[k]
		vb, ob := b[k]
		if oa != ob {
			return fmt.Sprintf("entry %s present=%v vs %v", k, oa, ob)
		}
		if va != vb {
			return fmt.Sprintf("entry %s value differs", k)
		}
	}
	return ""
}

// Derived holds the keys the wallet must derive for one seed (computed with hdkeychain directly).
type Derived struct {
	Root, Purpose, Coin, Acct *hdkeychain.ExtendedKey
	Branch                    [2]*hdkeychain.ExtendedKey
}

// Derive walks m/44'/coin'/0' and both branches from a seed.
func Derive(seed []byte) (*Derived, error) {
	net := Net()
	root, err := hdkeychain.NewMaster(seed, net)
	if err != nil {
		return nil, err
	}
	d := &Derived{Root: root}
	if d.Purpose, err = root.Child(44 + H); err != nil {
		return nil, err
	}
	if d.Coin, err = d.Purpose.Child(net.HDCoinType + H); err != nil {
		return nil, err
	}
	if d.Acct, err = d.Coin.Child(0 + H); err != nil {
		return nil, err
	}
	for b := 0; b < 2; b++ {
		if d.Branch[b], err = d.Acct.Child(uint32(b)); err != nil {
			return nil, err
		}
	}
	return d, nil
}

// Child returns the private extended key of (branch, index).
func (d *Derived) Child(branch, index uint32) (*hdkeychain.ExtendedKey, error) {
	return d.Branch[branch].Child(index)
}

// PubHex returns the compressed public key (hex) of (branch, index).
func (d *Derived) PubHex(branch, index uint32) string {
	c, err := d.Child(branch, index)
	if err != nil {
		return ""
	}
	pk, err := c.ECPubKey()
	if err != nil {
		return ""
	}
	return hex.EncodeToString(pk.SerializeCompressed())
}

// AddrOf is the pay-to-pubkey-hash address of a compressed public key, computed with massutil directly.
func AddrOf(pubHex string) string {
	b, err := hex.DecodeString(pubHex)
	if err != nil {
		return ""
	}
	a, err := massutil.NewAddressPubKeyHash(massutil.Hash160(b), Net())
	if err != nil {
		return ""
	}
	return a.EncodeAddress()
}

func ParsePub(pubHex string) *pocec.PublicKey {
	b, err := hex.DecodeString(pubHex)
	if err != nil {
		return nil
	}
	pk, err := pocec.ParsePubKey(b, pocec.S256())
	if err != nil {
		return nil
	}
	return pk
}

// CopyDir copies a (closed or quiescent) store directory byte for byte.
func CopyDir(src, dst string) error {
	if err := os.MkdirAll(dst, 0o755); err != nil {
		return err
	}
	es, err := os.ReadDir(src)
	if err != nil {
		return err
	}
	for _, e := range es {
		if e.IsDir() {
			if err := CopyDir(filepath.Join(src, e.Name()), filepath.Join(dst, e.Name())); err != nil {
				return err
			}
			continue
		}
		if e.Name() == "LOCK" {
			continue
		}
		b, err := os.ReadFile(filepath.Join(src, e.Name()))
		if err != nil {
			return err
		}
		if err := os.WriteFile(filepath.Join(dst, e.Name()), b, 0o644); err != nil {
			return err
		}
	}
	return nil
}

// ReadAllFiles returns the concatenated bytes of every regular file under dir, with names.
func ReadAllFiles(dir string) (map[string][]byte, error) {
	out := map[string][]byte{}
	err := filepath.Walk(dir, func(p string, info os.FileInfo, err error) error {
		if err != nil {
			return nil
		}
		if info.Mode().IsRegular() {
			b, err := os.ReadFile(p)
			if err == nil {
				out[p] = b
			}
		}
		return nil
	})
	return out, err
}

var _ = bytes.Equal

// TryOpenNode opens the store the way the node does at start-up (poc/wallet.NewPoCWallet: MinerDir/keystore) and
// closes it again at once; it returns the error of the open. dir must be a ".../keystore" directory.
func TryOpenNode(dir string, pub []byte) error {
	if filepath.Base(dir) != "keystore" {
		return errors.New("TryOpenNode: not a keystore directory")
	}
	cfg := config.DefaultConfig()
	cfg.Miner.MinerDir = filepath.Dir(dir)
	pw, err := nodewallet.NewPoCWallet(cfg, pub)
	if err != nil {
		return err
	}
	return pw.Close()
}
