#!/bin/bash
# Offline setup: pre-build every driver so that the first check does not pay for the cgo build.
set -u
cd "$(dirname "$(readlink -f "$0")")"
export GOFLAGS=-mod=mod GOPROXY=off GOSUMDB=off GOTOOLCHAIN=local
mkdir -p .bin evidence
rc=0
for d in harness/cmd/c*/; do
  id=$(basename "$d")
  flags=()
  case "$id" in c13|c14|c17) flags=(-race) ;; esac
  (cd harness && go build -tags verif "${flags[@]}" -o "../.bin/$id" "./cmd/$id") 2>&1 | grep -v -e 'ld: warning' -e 'ld: NOTE' -e '^#' || true
done
exit $rc
