# attribute a dead driver: prints the deciding frame of the goroutine the process died in.
# Walk down the first goroutine block that has a deciding frame. Frames above the LAST runtime `panic(` frame are
# deferred functions that ran (and possibly re-raised) after the original panic: the panic site is what follows it.
# Standard-library frames are skipped (a panic raised inside math/big or bytes on behalf of its caller); the first
# frame of the code under test or of the harness (main. / verif/) decides.
function decide(   i, l) {
  for (i = last + 1; i <= n; i++) {
    l = lines[i]
    if (l !~ /^[a-zA-Z]/) continue
    if (l ~ /^created by /) continue
    if (l ~ /^(main\.|verif\/)/) { print l; return 1 }
    if (l ~ /^[a-z0-9_-]+\.[a-z]+[a-z0-9.-]*\//) { print l; return 1 }
  }
  return 0
}
/^goroutine [0-9]+ /{ f = 1; n = 0; last = 0; next }
f && /^[ \t]*$/ { f = 0; if (decide()) { found = 1; exit } next }
f { lines[++n] = $0; if ($0 ~ /^panic\(/) last = n }
END { if (!found && f) decide() }
