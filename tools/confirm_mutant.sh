#!/bin/bash
# usage: confirm_mutant.sh <out dir with patch.diff, demo/run.sh, meta.json> <scratch worktree> <seeded id>
# Confirms in the scratch worktree: patch applies, builds, the existing suite passes with it, the demo FAILS with it
# and PASSES without it; then stores it under /verif/seeded/<id>/.
set -u
OUT="$1"; WT="$2"; SID="$3"
export GOFLAGS=-mod=mod GOPROXY=off GOSUMDB=off GOTOOLCHAIN=local
cd "$WT" || exit 9
git checkout -q -- . ; git clean -fdq
git apply --check "$OUT/patch.diff" || { echo "CONFIRM $SID: patch does not apply"; exit 1; }
git apply "$OUT/patch.diff"
b=ok; go build ./... 2>/dev/null || b=FAIL
t=$(go test -vet=off -count=1 ./... 2>&1 | grep -c "^FAIL\|^--- FAIL")
dw=$( (bash "$OUT/demo/run.sh" 2>&1; echo "rc=$?") | tail -3 | tr '\n' ' ')
git checkout -q -- . ; git clean -fdq
dwo=$( (bash "$OUT/demo/run.sh" 2>&1; echo "rc=$?") | tail -3 | tr '\n' ' ')
git checkout -q -- . ; git clean -fdq
echo "CONFIRM $SID: build=$b suite_failures=$t"
echo "   demo with change   : $dw"
echo "   demo without change: $dwo"
mkdir -p /verif/seeded/$SID
cp "$OUT/patch.diff" /verif/seeded/$SID/patch.diff
rm -rf /verif/seeded/$SID/demo; cp -r "$OUT/demo" /verif/seeded/$SID/demo
python3 - "$OUT/meta.json" /verif/seeded/$SID/meta.json "$b" "$t" "$dw" "$dwo" <<'PY'
import json,sys
src,dst,b,t,dw,dwo=sys.argv[1:]
try: m=json.load(open(src))
except Exception: m={}
m["confirmed_by_owner"]={"scratch_worktree":"git worktree of /repo HEAD under /tmp/mut","build":b,"existing_suite_failures":int(t),"demo_with_change":dw.strip(),"demo_without_change":dwo.strip()}
json.dump(m,open(dst,"w"),indent=1)
PY
