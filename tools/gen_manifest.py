#!/usr/bin/env python3
"""Generates /verif/MANIFEST.json from the table below (one place to edit)."""
import json, os, subprocess
V = os.path.dirname(os.path.dirname(os.path.abspath(__file__)))

# id: (category, technique, level text, level note, design ref)
CHECKS = {
 "C18": ("exploration", "independent BIP32/BIP39 reference oracle over seeded and searched (leading-zero) seeds/paths/entropies",
         "Every derivation step the run produces (private, public, hardened, normal, after string round trip) is compared with an independent reference validated against the published vectors; seeds and child indices are searched so that short private scalars occur in every run. Held = on all derivations of this run.",
         "trusts internal/ref (self-checked against BIP32 vectors 1-4 and BIP39 English vectors at start-up), Go's crypto/hmac, sha512, math/big",
         "DESIGN.md §3 C18"),
}
PENDING = {}

def main():
    props = [json.loads(l)["id"] for l in open(os.path.join(V, "properties.jsonl"))]
    hooks = subprocess.run(["git", "-C", "/repo", "log", "--format=%H %s", "--grep=^verif hooks:"], capture_output=True, text=True).stdout.strip().splitlines()
    m = {
     "version": 1,
     "setup_cmd": "./setup.sh",
     "hooks": {
      "guard": "verif",
      "enable": "go build -tags verif (the harness module /verif/harness replaces massnet.org/mass by /repo, so every check recompiles /repo's working tree with the hooks on)",
      "baseline_off_cmd": "cd /repo && GOFLAGS=-mod=mod GOPROXY=off GOSUMDB=off go test -json -vet=off -count=1 -timeout 25m ./...",
      "source_commits": [h.split()[0] for h in hooks],
      "add_only": True,
     },
     "engines": [
      {"name": "harness", "path": "harness", "serves_properties": sorted(CHECKS), "kind_free_text": "Go drivers (one per property) that run the real code under seeded hostile workloads, child processes, fault injection and hooks, with oracles over the recorded executions; shared library harness/internal/vh, reference models harness/internal/ref"},
     ],
     "checks": [],
     "not_applicable": [],
     "notes": "Technique family: runtime monitoring. ./check <ID> <tier> rebuilds the driver against /repo's working tree (-tags verif, -race where stated) and runs it; exit 0 held / 1 violation / 2 inconclusive / 3 harness does not build. Known findings: known_findings.json. See DESIGN.md.",
    }
    for pid in props:
        if pid in CHECKS:
            cat, tech, text, note, ref = CHECKS[pid]
            m["checks"].append({
             "property_id": pid,
             "quick_cmd": "./check %s quick" % pid,
             "thorough_cmd": "./check %s thorough" % pid,
             "evidence_file": "/verif/evidence/%s.json" % pid,
             "replay_cmd_template": "./check %s --replay {path}" % pid,
             "engine": "harness",
             "level_claimed": {"category": cat, "text": text, "design_ref": ref},
             "level_note": note,
             "technique": tech,
            })
        else:
            m["not_applicable"].append({"property_id": pid, "reason": PENDING.get(pid, "monitor designed (DESIGN.md §3) but not built yet; not claimed until its check exists and is silent on the unchanged tree")})
    json.dump(m, open(os.path.join(V, "MANIFEST.json"), "w"), indent=1)
    print("checks:", len(m["checks"]), "not_applicable:", len(m["not_applicable"]))

main()
