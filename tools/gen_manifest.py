#!/usr/bin/env python3
"""Generates /verif/MANIFEST.json from the table below (one place to edit)."""
import json, os, subprocess
V = os.path.dirname(os.path.dirname(os.path.abspath(__file__)))

# id: (category, technique, level text, level note, design ref)
CHECKS = {
 "C01": ("exploration", "seeded wallet histories + cross-wallet import with snapshot/signature oracle and an exhaustive single-field corruption sweep of every exported file",
         "Every export produced by the seeded histories is re-imported (same wallet after delete, and another wallet holding 0-2 other keystores) and compared key by key through the public API, every imported key signs; 6+ wrong-passphrase kinds, duplicate import and each single-field corruption of every JSON leaf must be rejected with memory snapshot and logical store dump unchanged. Held = on the histories and corruptions of this run; unauthenticated fields are listed known findings.",
         "trusts pocec signature verification, hdkeychain for expected keys (checked separately by C18), the db interface for the logical dump; scrypt cost lowered to N=16 for speed",
         "DESIGN.md §3 C01"),
 "C02": ("exploration", "restart after every prefix of seeded wallet histories; differential against the running instance, an abstract model of acknowledged operations, next-key prediction and passphrase-behaviour probes",
         "Each (history, prefix) is executed on the real wallet over the real leveldb store, the store is closed and reopened, and the reopened wallet must equal the running one, the model of acknowledged operations, issue the predicted next keys and answer passphrase probes (export per keystore, unlock of the locked wallet) as before; a few keystores carry 250-310 keys on one branch; wrong public passphrases must fail and leave the logical dump unchanged. Held = on the prefixes explored.",
         "trusts hdkeychain derivation for predicted keys, the harness model of acknowledged operations (30 lines), goleveldb",
         "DESIGN.md §3 C02"),
 "C03": ("exploration", "seeded wallet histories with hostile passphrase arguments; success=>current-passphrase oracle, cross-keystore governance probe, and in-memory secret-validity invariant through the H4 inspector after every step",
         "After every step of every history the H4 inspector (build tag verif) is read under the wallet's own locks: unlocking must be all-or-nothing and a locked wallet must hold no per-address/account/branch private key, no valid key-decrypting key, not the true private crypto key and no passphrase hash; every acknowledged sign/export/delete/passphrase change/create/import/unlock must have been given the current passphrase (candidates include previous, public, ill-formed, empty, one-character-different, current+NUL bytes and current+legal characters beyond the 40-character limit; passphrases of exactly 6 and 40 characters occur). Held = on the histories of this run.",
         "trusts the H4 inspector (read-only, takes the package's own locks), snacl for recovering the true keys from the store",
         "DESIGN.md §3 C03"),
 "C04": ("exploration", "byte scan of store files, exports, API-written files and node log for ground-truth secrets after every operation, with positive control",
         "After every operation of every history (half of the passphrase-bearing calls go through api.Server handlers, logging at trace) all bytes on disk, all exports and the new log bytes are searched for every secret of the history (seed, all BIP32 private keys as scalar and xprv, crypto keys, scrypt master keys, passphrases) in raw/hex/HEX/base64 encodings. Every other API import is preceded by the same request with an unusable path (missing, a directory, not a keystore), so the handlers' failure paths see the passphrases too. Held = none found in this run; a planted secret must be found or the run is inconclusive.",
         "needles >= 6 bytes; encodings limited to raw, hex, HEX, base64 (whole groups), text; compression inside leveldb tables is not undone (goleveldb default snappy may hide a needle inside a compressed block; the journal and small tables are scanned uncompressed)",
         "DESIGN.md §3 C04"),
 "C05": ("exploration", "every issued key signs at every unlocked point of seeded histories; external pocec verification and cross-key/foreign/locked refusal",
         "At every unlocked step every key ever issued (locked/unlocked, both branches, before/after restart, import, passphrase change) signs fresh digests and messages; signatures are verified outside the wallet under exactly the requested key and must not verify under another issued key; foreign keys and a locked wallet must be refused; one history in eight ends with a keystore of 250-310 keys on one branch, a restart and signatures from all of them. Held = on the signatures of this run.",
         "trusts pocec.Signature.Verify and wire.HashH from mass-core",
         "DESIGN.md §3 C05"),
 "C06": ("exploration", "issuance log with set oracle (unique keys make histories unambiguous), sequential histories and 2-8 concurrent issuers, restart and lookup agreement",
         "Every issued key must be the derived key at the next external index of its keystore, never returned before, with ordinal equal to that index and agreeing lookups before and after restart; concurrent issuance from 2-8 goroutines is recorded and checked as a set per keystore (consecutive, no reuse, no gap); a real capacity keeper creates 1-14 header-only spaces on a wallet that issued 0-12 keys before, every plot file name must carry the wallet ordinal of its key and a second keeper on the reopened wallet must index every file (ordinals >= 10 included). Held = on the issuances of this run.",
         "trusts hdkeychain derivation (C18); header/name mismatches of plot files are C11",
         "DESIGN.md §3 C06"),
 "C07": ("exploration", "real massdb.v1 plotter in child processes under the cache-size hook (H1), judged entry by entry against an independent reference construction plus tie-break-independent soundness/completeness and a GetProof/VerifyProof oracle",
         "Held on 201 (quick) / 499 (thorough) uninterrupted real plots at bit lengths 8-20 and 24 across 33-71 distinct window shapes: every table entry equalled the reference construction and was sound, and every bl-24 challenge was served a verifying proof exactly when the construction has one. Bit lengths >= 26, real low-memory conditions (emulated by the hook) and resumed plots (C10) are not covered.",
         "trusts mass-core pocutil.P/F/FlipValue and poc.VerifyProof as the definition of the construction; refplot self-checked at start-up",
         "DESIGN.md §3 C07"),
 "C08": ("exploration", "runtime monitoring of the real miner against scripted chain/keeper seams with a recomputing oracle (seeded scenario exploration on real 3 s slots)",
         "Held on 60 (quick) / 600 (thorough) seeded scenarios in which the real PoC miner ran against scripted templates, proof sets from bit-length-24 reference tables, competing tips and Stop() calls; every block it handed to ProcessBlock was re-derived with the chain library's VerifyProof/VerifiedQuality and the scripted target function and checked for proof, binding, strict quality>target, earliest slot / best proof / look-ahead, header target and timestamp, signature, submission time, single success per height and abandonment. Not covered: behaviour during the timestamp wait after a proof is chosen.",
         "the miner reads time.Now() itself (no injectable clock): time is an input of the system under test, scenarios with margins under 1.5 s are dropped, not judged; trusts mass-core poc.VerifyProof/VerifiedQuality and pocec",
         "DESIGN.md §3 C08"),
 "C09": ("exploration", "gate-scheduled real keepers (H3 hook points as gates, scripted plot backend through the exported registry) + online trace specification over quiescent observations",
         "The harness is the scheduler of the plotter goroutine of the real v1 and v2 keepers: every move is one API action (single or bulk), one plotter gate release, a scripted plot outcome, or keeper stop/start, and after every move all state queries are read at a quiescent point and checked: flag queries partition the listing, every state change is allowed by the documented table for the event that happened, at most one space plots, a space is plotted or mined only while a request is outstanding, exactly the mining spaces are offered to the miner, completion/abort lead to the documented states. Held = on the (sequence, schedule) pairs explored; the stale-request classes are listed findings.",
         "the gates sit between critical sections where the Go scheduler could preempt anyway; the pending-channel length is read by reflection at quiescent points; scripted plots stand in for real plotting (real plots: C07/C10/C11/C13)",
         "DESIGN.md §3 C09"),
 "C10": ("fault_enumeration", "crash/stop fault injection at hook points (H1/H2) on the real plotter in child processes, with reopen-and-compare against a reference plot, a bounded-progress monitor counted in loop iterations, and a syscall-order (strace) write-ordering oracle",
         "Every hook point of both plotting passes x kill / graceful stop x window index, asynchronous kills, graceful stops landing a seeded delay inside a window (seen by the block-wise window write instead of the sweep) and up to four interruptions in a row at bit lengths 8-16, each resumed with a different window size (plus files carrying the odd checkpoints older builds left behind); after every interruption the reopened space is checked (never plotted with an incomplete table, nothing below a recorded checkpoint differs from the reference), every resume must finish within a loop-iteration bound and end byte-identical to the reference table. Durability is judged as pwrite/fsync/unlink order in strace traces. The fault space of each explored (key, bit length, window configuration) is enumerated per hook point and occurrence; keys and configurations are sampled.",
         "SIGKILL cannot lose page cache: power loss is represented by the syscall-order oracle only; bit lengths above 16 and real memory pressure are not exercised; trusts refplot (C07)",
         "DESIGN.md §3 C10"),
 "C11": ("exploration", "seeded plot-directory/history exploration of the real keeper with hook-gated plotter (H3), per-operation file-system diff oracle, independent reference indexer, strace attribution of unlink/rename/truncate (thorough)",
         "Real keeper, real plot files and a real wallet over seeded plot directories (27 file classes across 1-3 directories) and gated action histories: a full directory listing is compared before and after every operation (only an accepted Delete, the end-of-plot removal of map A and the documented legacy rename may remove or rename plot files), Remove/Delete must be refused while plotting or mining, a third of the real plots get a Stop request at the end of pass A (cut short inside pass B: map A must survive), and every start-up/restart index is judged file by file against an independent reference indexer (header vs name, wallet key and ordinal, duplicates, recorded progress). Held = on the scenarios executed; file creation at start-up is observed, not judged (the statement forbids deletion).",
         "tables of bit length >= 24 are fabricated headers / sparse files, so 'never serves proofs from rejected files' is observed as absence of a proof object; trusts the harness reference indexer (cross-checked against the generator's own expectation in every scenario)",
         "DESIGN.md §3 C11"),
 "C12": ("fault_enumeration", "fault-injecting db.DB around the real leveldb store: every bucket write and every commit of every operation failed or crashed (sentinel panic), reopen-equals-none-or-all oracle; plus real SIGKILL of a child process executing acknowledged histories",
         "For each operation of each seeded history the writes w and commits c are measured on a copy, then the operation is replayed once per fault point (failed k-th write, failed commit, crash before commit, crash after commit), the store is reopened without faults and must open and show the complete effect or none (observable snapshot, private-passphrase acceptance per keystore, public passphrase that opens it); an operation that returned an error must leave the running instance unchanged, an acknowledged one must survive restart. The fault space of every explored operation is enumerated completely; operations and histories are sampled. Real kills: reopened state must be the acknowledged prefix or prefix plus the in-flight operation.",
         "read faults are not injected (statement is about writes, commits, crashes); SIGKILL cannot lose page cache, so leveldb's own fsync discipline is exercised but not power loss; goleveldb transaction atomicity is trusted below the db interface",
         "DESIGN.md §3 C12"),
 "C13": ("exploration", "stress and directed schedules of the real keepers under the race detector in child processes; call/return completeness, watchdog with goroutine-dump attribution, process-death detection",
         "4-16 goroutines fire every keeper entry point (single and bulk actions, queries, miner offers, Start, Stop) at 1-3 spaces on the v1 keeper over scripted plots, on the v2 keeper, and on the v1 keeper over the real massdb.v1 backend with small plot windows; directed schedules hold a real plot at a hook point while a Stop request races keeper shutdown, fire 900-1500 requests while a plot is held, and cycle Start/Stop (with Starts refused because the poc wallet is locked; the stress goroutines lock and unlock the wallet too). Every call must return, Stop must return and the process must not panic; an open call at the 45 s watchdog is a deadlock only if the goroutine dump shows goroutines blocked in repository frames. Held = on the scenarios of this run; race reports in repository code are listed as observations (the statement does not promise race freedom).",
         "wall-clock watchdog (45 s against normal latencies of micro- to milliseconds) decides 'never returns' together with the dump; real plots only at bit lengths 12-16",
         "DESIGN.md §3 C13"),
 "C14": ("exploration", "Go race detector over concurrent wallet histories in child processes (reports filtered to repository frames) + porcupine linearizability check of every recorded history against a sequential wallet model + interval oracle over observer-stress histories + quiescent-state inspection; injected pauses after store commits",
         "2-4 goroutines issue mixed wallet operations on 1-2 keystores under -race; every call is recorded at the client boundary with one monotonic clock and every history is checked with porcupine against a sequential model (issued indices, lock flag, remark, export contents, lookups); race reports whose two accesses are both in repository code are violations, de-duplicated by function pair; a dead child is a crash; at the end the H4 locked-memory invariant and reopen equality are checked. Two in three histories run over a store that pauses up to 4 ms after 35% of its commits (widening the window between store update and in-memory publication), every fifth is remark-heavy, and every tenth case is an observer-stress history (1-2 writers issue 40-92 keys; 3-5 readers poll counts, listings and ordinal lookups in a tight loop; every answer must lie between what was acknowledged before the call and what was requested by its return; counts never decrease), another tenth a governance race (ImportKeystore / NewKeystore under the current private passphrase racing ChangePrivPassphrase: afterwards one passphrase must export every keystore and unlock the wallet). Held = no report / all histories linearizable / all observer answers possible in this run.",
         "race detector only sees executed interleavings; porcupine timeout (60 s) = dropped case; model allows Unlock(current) to fail on an already unlocked wallet (sequential behaviour of the code)",
         "DESIGN.md §3 C14"),
 "C15": ("exploration", "seeded scenario exploration of the real capacity keeper, wallet, massdb.v1 header-only plot files and api.Server capacity handlers with an arithmetic and directory-listing oracle, plus restart comparison",
         "Scenarios run ConfigureBySize/ByPath/ByBitLength/ByFlags, the API capacity handlers, removals and keeper restarts over 0-6 pre-existing spaces in 1-3 directories; every call is judged from returned infos, directory listings before/after and disk.Usage free space for size arithmetic (sum <= request, gap < smallest plot), reuse-before-create, directory placement, exact counts, rejection without files (incl. overflow-sized requests), and re-discovery after restart; two in five scenarios spell miner.proof_dir non-canonically (relative, through '..', trailing '/' or '/.'), and every api.ConfigureCapacityByDirs response is compared per directory with the selection. Held = on the scenarios executed, bit lengths 24-30, nothing plotted.",
         "free disk space is read with the same gopsutil call the code uses, requests near the boundary are not judged; trusts mass-core PlotSize",
         "DESIGN.md §3 C15"),
 "C16": ("exploration", "seeded generators with real BLS elements + structure-aware JSON/type-prefix/hex/BLS-point mutator over valid encodings, raw-socket wire cases against the real connection framing and reader, child-process batches with progress-file crash attribution, hang/RSS watchdog and per-input allocation accounting; thorough re-runs a slice under go build -asan",
         "Every generated message of the six types is encoded and decoded by the real codec and compared field by field; every mutated or random byte string up to the 2 MiB receive limit is decoded in a child process, where a panic, process death, over 10 s or allocation above 256 x len + 64 MiB for one input, or an accepted message that is malformed or does not re-encode to itself is a violation. Wire cases drive the framing of connection.Conn and the real fractal reader over loopback TCP with raw writes in seeded pieces (whole, header byte by byte, random cuts, fixed segment sizes, coalesced frames, bodies at the size boundaries up to the 2 MiB receive limit): messages and frames must come out equal and in order, a frame above the limit sent in full must not be delivered and an announced 64 MiB-1 GiB frame must not be allocated. Held = on the inputs of this run.",
         "the prebuilt BLS archives are not instrumented (asan sees only intercepted libc calls); allocation bound is a proxy for 'exhausts memory'",
         "DESIGN.md §3 C16"),
 "C17": ("exploration", "in-process cluster topologies (superior, pools, relays, collectors over loopback TCP with scripted keepers) under -race with a fault-injecting TCP proxy and schedule hooks (H6); client-boundary event log judged by an offline oracle, watchdog plus goroutine-dump attribution for non-returning calls",
         "On the seeded scenarios - removals, stops, drops, stalls and late subscriptions at seeded moments, including inside the hook-widened AddTask/Subscribe window - every recorded event log must satisfy: broadcast tasks exactly once to fully covered collectors (at least once to late subscribers), targeted tasks only inside the target's subtree, every received report equal to a sent one with a stable connection tag and in per-connection order, nothing delivered after RemoveTask returned, every call returned within the 30 s watchdog (deadlock only with repository frames in the dump), and fresh probe tasks still answered after every injected event. A third of the scenarios give the pools' connections a 0.2-3 ms keepalive interval (hook), so stops and drops land on keepalive ticks and pongs; after the last teardown of every child process the goroutine dump must show no cluster-code goroutine blocked for good (judged only when every remaining one waits on a lock or wait group in two dumps a second apart). Held = on the scenarios of this run; nothing about topologies beyond 16 collectors / 2 relays or faults not produced.",
         "unique ids make the history unambiguous; quality tasks use parent target 0 so every scripted quality passes (the chain library's filtering is not re-derived); race reports are observations",
         "DESIGN.md §3 C17"),
 "C18": ("exploration", "independent BIP32/BIP39 reference oracle over seeded and searched (leading-zero) seeds/paths/entropies",
         "Every derivation step the run produces (private, public, hardened, normal, after string round trip) is compared with an independent reference validated against the published vectors; seeds and child indices are searched so that short private scalars occur in every run. Held = on all derivations of this run.",
         "trusts internal/ref (self-checked against BIP32 vectors 1-4 and BIP39 English vectors at start-up), Go's crypto/hmac, sha512, math/big",
         "DESIGN.md §3 C18"),
 "C19": ("exploration", "model-based runtime monitoring: seeded adversarial operation sequences on the real leveldb-backed bucket store, differential against a tree-of-maps reference with full logical dumps",
         "300 (quick) / 20 000 (thorough) seeded sequences of 60 / 120 bucket, key and transaction operations with layout-imitating names and keys are applied to the real store and to a tree-of-maps model; every result, error class and a full logical dump after each commit, rollback and reopen is compared (ten sequences share one store, so earlier sequences' buckets are re-checked too); one sequence in six nests buckets to depth 11-14. Held on all sequences explored; histories not generated are not covered.",
         "edge semantics (which names/keys/values are rejected, handles designate paths) are taken from the code and its tests and listed in the driver; goleveldb itself is trusted only as far as the dumps confirm it",
         "DESIGN.md §3 C19"),
 "C20": ("exploration", "seeded adversarial-input differential monitoring of the real gateway chain, api.Server handlers over scripted space keepers, and the amount codec, against net/netip, massutil and math/big reference oracles",
         "Well-formed non-wildcard addresses are compared with an independent net/netip classification through the real gateway chain (403 and zero inner-handler calls for every unconfigured origin; malformed strings must not panic or be admitted beyond a lenient reading); every workspace listed by a real api.Server must match massutil's binding target and address and echo its key/size/ordinal/state; in-range amounts must render as the exact canonical decimal and parse back; the started gRPC listener must be bound to 127.0.0.1. No claim beyond the generated inputs; 127/8 other than 127.0.0.1 is not judged.",
         "trusts net/netip, mass-core massutil as the definition of binding target and address, math/big; H5 exports (build tag verif) wrap the unexported gateway functions",
         "DESIGN.md §3 C20"),
}
PENDING = {}

def main():
    props = [json.loads(l)["id"] for l in open(os.path.join(V, "properties.jsonl"))]
    hooks = subprocess.run(["git", "-C", "/repo", "log", "--format=%H %s", "--grep=^verif hooks:"], capture_output=True, text=True).stdout.strip().splitlines()
    m = {
     "version": 1,
     "setup_cmd": "./setup.sh",
     "hooks": {
      "guard": "verif",
      "enable": "go build -tags verif (the harness module /verif/harness replaces massnet.org/mass by /repo, so every check recompiles /repo's working tree with the hooks on)",
      "baseline_off_cmd": "cd /repo && GOFLAGS=-mod=mod GOPROXY=off GOSUMDB=off go test -json -vet=off -count=1 -timeout 25m ./...",
      "source_commits": [h.split()[0] for h in hooks],
      "add_only": True,
     },
     "engines": [
      {"name": "harness", "path": "harness", "serves_properties": sorted(CHECKS), "kind_free_text": "Go drivers (one per property) that run the real code under seeded hostile workloads, child processes, fault injection and hooks, with oracles over the recorded executions; shared library harness/internal/vh, reference models harness/internal/ref"},
     ],
     "checks": [],
     "not_applicable": [],
     "notes": "Technique family: runtime monitoring. ./check <ID> <tier> rebuilds the driver against /repo's working tree (-tags verif, -race where stated) and runs it; exit 0 held / 1 violation / 2 inconclusive / 3 harness does not build. Known findings: known_findings.json. See DESIGN.md.",
    }
    for pid in props:
        if pid in CHECKS:
            cat, tech, text, note, ref = CHECKS[pid]
            m["checks"].append({
             "property_id": pid,
             "quick_cmd": "./check %s quick" % pid,
             "thorough_cmd": "./check %s thorough" % pid,
             "evidence_file": "/verif/evidence/%s.json" % pid,
             "replay_cmd_template": "./check %s --replay {path}" % pid,
             "engine": "harness",
             "level_claimed": {"category": cat, "text": text, "design_ref": ref},
             "level_note": note,
             "technique": tech,
            })
        else:
            m["not_applicable"].append({"property_id": pid, "reason": PENDING.get(pid, "monitor designed (DESIGN.md §3) but not built yet; not claimed until its check exists and is silent on the unchanged tree")})
    json.dump(m, open(os.path.join(V, "MANIFEST.json"), "w"), indent=1)
    print("checks:", len(m["checks"]), "not_applicable:", len(m["not_applicable"]))

main()
