#!/bin/bash
# usage: sweep.sh <tier> [seed ...]   runs every claimed check on /repo's working tree, one line per (check, seed)
# exit 0 only if every run exited 0. Keeps the last seed-1 evidence (runs seed 1 last).
T=${1:-quick}; shift
SEEDS="${@:-1}"
cd "$(dirname "$(readlink -f "$0")")/.."
rc=0
for S in $SEEDS; do
  for ID in C01 C02 C03 C04 C05 C06 C07 C08 C09 C10 C11 C12 C13 C14 C15 C16 C17 C18 C19 C20; do
    out=$(VERIF_SEED=$S ./check $ID $T 2>&1); r=$?
    [ $r -ne 0 ] && rc=1
    echo "$ID seed=$S exit=$r $(echo "$out" | grep -m1 '^SUMMARY' | sed 's/.*evaluations/evaluations/') known=$(echo "$out" | grep -c '^KNOWN-FINDING')"
    echo "$out" | grep -E '^(VIOLATION|INCONCLUSIVE|BUILD-FAILED)' | cut -c1-300 | head -5
  done
done
exit $rc
