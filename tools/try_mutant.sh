#!/bin/bash
# usage: try_mutant.sh <patch.diff> <ID> [<ID> ...]   (env SEEDS="1 2" optional)
# Applies a seeded change to /repo, runs the quick checks of the given properties, and undoes the change.
set -u
P="$1"; shift
cd /repo
if [ -n "$(git status --porcelain)" ]; then echo "/repo is not clean"; exit 9; fi
git apply --check "$P" || { echo "patch does not apply"; exit 9; }
git apply "$P"
trap 'git -C /repo checkout -- . ; git -C /repo clean -fdq' EXIT
for ID in "$@"; do
  for S in ${SEEDS:-1}; do
    out=$(cd /verif && VERIF_DIR_KEEP=1 VERIF_SEED=$S ./check "$ID" quick 2>&1)
    rc=$?
    echo "== $ID seed=$S exit=$rc $(echo "$out" | grep -m1 '^SUMMARY' | sed 's/.*evaluations/evaluations/')"
    echo "$out" | grep -E '^(VIOLATION|INCONCLUSIVE|BUILD-FAILED)' | cut -c1-260 | head -4
    echo "$out" | grep -E '^  VIOLATED:' | cut -c1-200 | head -6
  done
done
