#!/bin/bash
# usage: try_mutant_isolated.sh <patch.diff> <ID> [<ID> ...]   (env SEEDS="1 2" optional; BASE=<diff applied first>)
# Like try_mutant.sh, but never touches /repo or /verif: it applies the change to a scratch worktree of /repo
# (/tmp/wtiso, created on demand) and runs the drivers from a scratch copy of the harness (/tmp/hiso, re-synced from
# /verif/harness on every call unless HISO_KEEP=1) whose replace directive points at that worktree.  For
# development while something else (the seeded matrix, a vp run) is using /repo.  Verdict files go to /tmp/hiso-out.
set -u
P="$1"; shift
export GOFLAGS=-mod=mod GOPROXY=off GOSUMDB=off GOTOOLCHAIN=local
S="${ISO:-}"; WT=/tmp/wtiso$S; H=/tmp/hiso$S; O=/tmp/hiso-out$S
[ -d "$WT" ] || git -C /repo worktree add --detach "$WT" HEAD >/dev/null 2>&1
cd "$WT" || exit 9
git checkout -q -- . ; git clean -fdq
if [ -n "${BASE:-}" ]; then git apply "$BASE" || { echo "base diff does not apply"; exit 9; }; fi
if [ "$P" != "-" ]; then
  git apply --check "$P" || { echo "patch does not apply"; exit 9; }
  git apply "$P"
fi
if [ "${HISO_KEEP:-0}" != 1 ] || [ ! -d "$H" ]; then
  rm -rf "$H"; cp -r /verif/harness "$H"
  sed -i "s#=> /repo#=> $WT#" "$H/go.mod"
fi
mkdir -p "$O/evidence" "$O/replays"
cp /verif/known_findings.json "$O/"; ln -sfn "$H" "$O/harness"
for ID in "$@"; do
  id=$(echo "$ID" | tr 'A-Z' 'a-z')
  BF=(); case "$ID" in C13|C14|C17) BF=(-race) ;; esac
  if ! (cd "$H" && go build -tags verif "${BF[@]}" -o "$O/$id" "./cmd/$id") 2> "$O/$id.build.log"; then
    if grep -q -v -e 'ld: warning' -e 'ld: NOTE' -e '^#' "$O/$id.build.log"; then cat "$O/$id.build.log"; echo "== $ID BUILD-FAILED"; continue; fi
  fi
  for S in ${SEEDS:-1}; do
    (cd "$O" && VERIF_DIR="$O" VERIF_SEED=$S "./$id" -tier "${TIER:-quick}" > "$O/$id.out" 2>&1); rc=$?
    echo "== $ID seed=$S exit=$rc $(grep -m1 '^SUMMARY' "$O/$id.out" | sed 's/.*evaluations/evaluations/')"
    grep -E '^(VIOLATION|INCONCLUSIVE|KNOWN-FINDING)' "$O/$id.out" | cut -c1-260 | head -4
    grep -E '^(panic:|fatal error:|FATAL-LOG-EXIT)' "$O/$id.out" | head -2
  done
done
cd "$WT" && git checkout -q -- . && git clean -fdq
