#!/opt/veriftools/pyvenv/bin/python
import json, sys, glob, jsonschema
m = json.load(open('/verif/MANIFEST.json'))
jsonschema.validate(m, json.load(open('/root/.vp/MANIFEST.schema.json')))
es = json.load(open('/root/.vp/EVIDENCE.schema.json'))
bad = 0
for c in m['checks']:
    p = c['evidence_file']
    try:
        jsonschema.validate(json.load(open(p)), es)
    except Exception as e:
        bad += 1
        print('EVIDENCE', p, str(e).splitlines()[0])
print('manifest ok; checks', len(m['checks']), 'bad evidence', bad)
sys.exit(1 if bad else 0)
